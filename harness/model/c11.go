package model

import (
	"fmt"

	"github.com/enbility/spine-go/verifrt"
)

// VHStore abstracts the function-data store of package spine so that the
// generic part of the C11 harness can live next to the list descriptors.
type VHStore interface {
	Replace(list any)                                                        // full update (no filter, persisting)
	Copy() any                                                               // what the API hands to the application
	Update(remoteWrite, persist bool, upd any, fp, fd *FilterType) (ok bool) // one update
}

var vhC11Shapes = []string{"partial-ids", "partial-noid", "partial-selector", "delete-selector", "delete-elements", "delete-selector-elements", "full-replace", "partial-empty"}

// VHC11: a data set handed out earlier never changes, whatever update follows;
// a non-persisting or failing update leaves the stored data as it was.
func VHC11(mk func(function FunctionType) VHStore) {
	l, si, mode := vhPickCase(len(vhC11Shapes), 4)
	shape := vhC11Shapes[si]
	remoteWrite, persist := mode&1 == 1, mode&2 == 2
	verifrt.Scenario(fmt.Sprintf("%s/%s/remoteWrite=%v,persist=%v", l.Name, shape, remoteWrite, persist))
	if l.Function == "" {
		return
	}
	store := mk(FunctionType(l.Function))
	if store == nil {
		verifrt.Reach("no-store-for-function")
		return
	}
	N := verifrt.Param("N", 2)
	ex := l.New()
	l.fillList("ex", ex, N, l.Fields)
	l.assumeUnique(ex) // stored by a full replacement: any order
	if l.WriteCheck != "" && remoteWrite {
		// keep the write acceptable or not: both are explored, the flag is symbolic
	}
	store.Replace(ex)

	var nonKey []string
	for _, f := range l.Fields {
		isKey := false
		for _, k := range l.Keys {
			if k == f {
				isKey = true
			}
		}
		if !isKey {
			nonKey = append(nonKey, f)
		}
	}
	if len(nonKey) == 0 {
		nonKey = []string{"-"}
	}
	upd := l.New()
	var fp, fd *FilterType
	selSpec := verifrt.Spec{Depth: verifrt.Param("selDepth", 2), MaxUint: 999}
	switch shape {
	case "partial-ids":
		fp = vhPartial()
		l.fillList("upd", upd, 1, l.Fields)
		verifrt.Assume(l.Len(upd) == 1)
		verifrt.Assume(l.hasAllKeys(l.At(upd, 0)))
	case "partial-noid":
		fp = vhPartial()
		l.fillList("upd", upd, 1, nonKey)
		verifrt.Assume(l.Len(upd) == 1)
	case "partial-selector":
		fp = vhPartial()
		sel := l.NewSel()
		verifrt.Fill("sel", sel, selSpec)
		l.SetSel(fp, sel)
		l.fillList("upd", upd, 1, nonKey)
		verifrt.Assume(l.Len(upd) == 1)
	case "delete-selector":
		fd = vhDelete()
		sel := l.NewSel()
		verifrt.Fill("sel", sel, selSpec)
		l.SetSel(fd, sel)
	case "delete-elements":
		fd = vhDelete()
		elem := l.NewElem()
		verifrt.Fill("elem", elem, verifrt.Spec{Depth: 1, Only: nonKey})
		l.SetElem(fd, elem)
	case "delete-selector-elements":
		fd = vhDelete()
		sel := l.NewSel()
		verifrt.Fill("sel", sel, selSpec)
		l.SetSel(fd, sel)
		elem := l.NewElem()
		verifrt.Fill("elem", elem, verifrt.Spec{Depth: 1, Only: nonKey})
		l.SetElem(fd, elem)
	case "full-replace":
		l.fillList("upd", upd, N, l.Fields)
	case "partial-empty":
		fp = vhPartial() // a partial update that carries no item
	}

	snap := store.Copy()
	frozen := verifrt.Freeze(snap)
	verifrt.Reach("snapshot-taken")

	ok := store.Update(remoteWrite, persist, upd, fp, fd)

	verifrt.Assert("snapshot-unchanged-by-later-update", verifrt.DeepEq(snap, frozen))
	if !persist || !ok {
		verifrt.Reach("non-persisting-or-failed")
		verifrt.Assert("non-persisting-or-failed-update-leaves-store-unchanged", verifrt.DeepEq(store.Copy(), frozen))
	} else {
		verifrt.Reach("persisted")
		// a second snapshot is stable under a further update as well
		snap2 := store.Copy()
		frozen2 := verifrt.Freeze(snap2)
		_ = store.Update(remoteWrite, true, upd, fp, fd)
		verifrt.Assert("second-snapshot-unchanged-by-later-update", verifrt.DeepEq(snap2, frozen2))
	}
	verifrt.Observe("ok", ok)
}
