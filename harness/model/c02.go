package model

import (
	"fmt"
	"reflect"

	"github.com/enbility/spine-go/verifrt"
)

func init() {
	verifrt.Register("VH_c02_update", VH_c02_update)
}

var vhC02Shapes = []string{"partial-ids", "partial-noid", "partial-selector", "delete-selector", "delete-elements", "delete-selector-elements", "delete-partial"}

// C02 (model level): one update of any filter shape applied to an arbitrary
// valid stored list equals the reference fold; the result is again valid
// (one item per identifier, ordered); a second application changes nothing;
// persist=false leaves the receiver unchanged. Inductive step: the pre-state
// is arbitrary within the invariant, so histories of any length follow.
func VH_c02_update() {
	l, si, zi := vhPickCase(len(vhC02Shapes), 2)
	shape := vhC02Shapes[si]
	// two size configurations: many stored items x few updates, and the reverse
	N, M := verifrt.Param("N", 2), verifrt.Param("Msmall", 1)
	if zi == 1 {
		N, M = verifrt.Param("Nsmall", 1), verifrt.Param("M", 2)
	}
	verifrt.Scenario(fmt.Sprintf("%s/%s/N<=%d,M<=%d", l.Name, shape, N, M))

	ex := l.New()
	l.fillList("ex", ex, N, l.Fields)
	l.assumeInvariant(ex)
	// item types that keep optional data in a slice-typed field: the first stored item carries it
	// (one element), the others do not; whether the first update item mentions it is symbolic
	if l.SetSlice != nil && l.Len(ex) > 0 {
		l.SetSlice(l.At(ex, 0), 1)
	}

	upd := l.New()
	var fp, fd *FilterType
	var sel, elem any
	nonKey := []string{}
	for _, f := range l.Fields {
		isKey := false
		for _, k := range l.Keys {
			if k == f {
				isKey = true
			}
		}
		if !isKey {
			nonKey = append(nonKey, f)
		}
	}
	if len(nonKey) == 0 {
		nonKey = []string{"-"} // no further field: nothing but identifiers is ever filled
	}

	switch shape {
	case "partial-ids":
		fp = vhPartial()
		l.fillList("upd", upd, M, l.Fields)
		for i := 0; i < l.Len(upd); i++ {
			verifrt.Assume(l.hasAllKeys(l.At(upd, i)))
		}
	case "partial-noid":
		fp = vhPartial()
		l.fillList("upd", upd, 1, nonKey)
		verifrt.Assume(l.Len(upd) == 1)
	case "partial-selector":
		fp = vhPartial()
		sel = l.NewSel()
		verifrt.Fill("sel", sel, verifrt.Spec{Depth: verifrt.Param("selDepth", 2), MaxUint: 999})
		l.SetSel(fp, sel)
		l.fillList("upd", upd, 1, nonKey)
		verifrt.Assume(l.Len(upd) == 1)
	case "delete-selector":
		fd = vhDelete()
		sel = l.NewSel()
		verifrt.Fill("sel", sel, verifrt.Spec{Depth: verifrt.Param("selDepth", 2), MaxUint: 999})
		l.SetSel(fd, sel)
	case "delete-elements":
		fd = vhDelete()
		elem = l.NewElem()
		verifrt.Fill("elem", elem, verifrt.Spec{Depth: 1, Only: nonKey})
		l.SetElem(fd, elem)
	case "delete-selector-elements":
		fd = vhDelete()
		sel = l.NewSel()
		verifrt.Fill("sel", sel, verifrt.Spec{Depth: verifrt.Param("selDepth", 2), MaxUint: 999})
		l.SetSel(fd, sel)
		elem = l.NewElem()
		verifrt.Fill("elem", elem, verifrt.Spec{Depth: 1, Only: nonKey})
		l.SetElem(fd, elem)
	case "delete-partial":
		fd = vhDelete()
		sel = l.NewSel()
		verifrt.Fill("sel", sel, verifrt.Spec{Depth: verifrt.Param("selDepth", 2), MaxUint: 999})
		l.SetSel(fd, sel)
		fp = vhPartial()
		l.fillList("upd", upd, M, l.Fields)
		for i := 0; i < l.Len(upd); i++ {
			verifrt.Assume(l.hasAllKeys(l.At(upd, i)))
		}
	}

	if l.SetSlice != nil && l.Len(upd) > 0 && verifrt.Concrete(verifrt.Bool("upd[0]."+l.SliceField+"?")) {
		l.SetSlice(l.At(upd, 0), 2)
	}

	// duplicate identifiers inside one update list are a scenario of their own
	scen := fmt.Sprintf("%s/%s/N<=%d,M<=%d", l.Name, shape, N, M)
	if l.Len(upd) == 2 && (shape == "partial-ids" || shape == "delete-partial") {
		if verifrt.Concrete(l.keyEq(l.At(upd, 0), l.At(upd, 1))) {
			scen += "/dup-ids-in-update"
		}
	}
	verifrt.Scenario(scen)

	// ---- reference
	ref := l.refOf(ex)
	pre := l.refOf(ex)
	asserted := true
	switch shape {
	case "partial-ids":
		ref.mergeByID(l, upd)
	case "partial-noid":
		if len(ref.items) == 0 {
			asserted = false // identifier-less data into an empty list: left open
		}
		for _, it := range ref.items {
			ref.overlay(it, l.At(upd, 0))
		}
	case "partial-selector":
		matches := 0
		var hit any
		for _, it := range ref.items {
			if verifrt.Concrete(ref.selMatch(sel, it)) {
				matches++
				if hit == nil {
					hit = it
				}
			}
		}
		switch {
		case matches == 1:
			ref.overlay(hit, l.At(upd, 0))
		case matches > 1:
			asserted = false
		}
	case "delete-selector":
		ref.deleteWhere(sel, nil)
	case "delete-elements":
		ref.deleteWhere(nil, elem)
	case "delete-selector-elements":
		ref.deleteWhere(sel, elem)
	case "delete-partial":
		ref.deleteWhere(sel, nil)
		ref.mergeByID(l, upd)
	}

	// the order of appended items is determined only for all-numeric identifiers
	cmp := func(r *vhRef, res any) bool {
		if !l.numericKeys() && (shape == "partial-ids" || shape == "delete-partial") {
			return r.equalsResultByKey(res)
		}
		return r.equalsResult(res)
	}
	// ---- the real update, first without persistence on a private copy of the store ...
	ex0 := verifrt.Freeze(ex).(Updater)
	res0, ok0 := ex0.UpdateList(false, false, upd, fp, fd)
	verifrt.Reach("non-persisting")
	verifrt.Assert("non-persisting-update-succeeds", ok0)
	// the per-type method returns the updated list (not something else it happened to have at hand)
	verifrt.Assert("update-returns-the-updated-list", l.IsRes(res0))
	if !l.IsRes(res0) {
		return
	}
	_ = pre // "a non-persisting update leaves the store unchanged" is asserted under C11 (VH_c11_update)
	if asserted {
		verifrt.Assert("non-persisting-result-equals-reference-fold", cmp(ref, res0))
	}
	// ... then persisting
	res, ok := ex.UpdateList(false, true, upd, fp, fd)
	verifrt.Reach("updated")
	verifrt.Assert("local-update-succeeds", ok)
	verifrt.Assert("update-returns-the-updated-list", l.IsRes(res))
	if !l.IsRes(res) {
		return
	}
	if asserted {
		verifrt.Reach("compared-with-reference")
		verifrt.Assert("result-equals-reference-fold", cmp(ref, res))
	}
	l.checkInvariant("", res)
	{
		if asserted {
			verifrt.Assert("stored-equals-reference-fold", cmp(ref, l.Slice(ex)))
		}
		// idempotence: the same update once more changes nothing
		first := l.refOfResult(res)
		res2, ok2 := ex.UpdateList(false, true, upd, fp, fd)
		verifrt.Assert("second-application-succeeds", ok2)
		// (a selector update that rewrites the very fields it selects on is not idempotent by nature)
		touches := false
		if sel != nil {
			for i := 0; i < l.Len(upd); i++ {
				for _, f := range l.SelFields {
					uf := vhF(l.At(upd, i), f)
					if uf.IsValid() && vhF(sel, f).Kind() == reflect.Ptr {
						touches = verifrt.Any(touches, verifrt.All(!vhF(sel, f).IsNil(), !uf.IsNil()))
					}
				}
			}
		}
		verifrt.Assert("second-application-changes-nothing", verifrt.Any(touches, first.equalsResult(res2)))
	}
	vhObserveLen("result-len", l.ResLen(res))
}
