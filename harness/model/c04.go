package model

import (
	"fmt"

	"github.com/enbility/spine-go/verifrt"
)

func init() {
	verifrt.Register("VH_c04_update", VH_c04_update)
}

var vhC04Shapes = []string{"partial-ids", "partial-noid", "partial-selector", "delete-selector", "delete-elements", "delete-selector-elements", "delete-partial"}

func vhWriteCheckTypes() []*vhList {
	var out []*vhList
	for _, l := range vhLists {
		if l.WriteCheck != "" {
			out = append(out, l)
		}
	}
	return out
}

// flag of the element is present and true
func (l *vhList) changeable(item any) bool {
	f := vhF(item, l.WriteCheck)
	return verifrt.All(!f.IsNil(), verifrt.DeepEq(f.Interface(), vhTruePtr(f.Interface())))
}

func vhTruePtr(like any) any {
	t := true
	switch like.(type) {
	case *bool:
		return &t
	}
	return &t
}

// C04 (model level): a remote write (remoteWrite=true) of any shape against a list
// mixing changeable, unchangeable and flag-less elements.
func VH_c04_update() {
	types := vhWriteCheckTypes()
	c := verifrt.ShardChoice("case", len(types)*len(vhC04Shapes))
	l0 := types[c/len(vhC04Shapes)]
	shape := vhC04Shapes[c%len(vhC04Shapes)]
	// symbolic item fields: identifiers, the flag, one further field
	lc := *l0
	l := &lc
	var fields, nonKey []string
	extra := 0
	for _, f := range l.Fields {
		isKey := false
		for _, k := range l.Keys {
			if k == f {
				isKey = true
			}
		}
		if !isKey && f != l.WriteCheck {
			extra++
			if extra > verifrt.Param("extra", 1) {
				continue
			}
		}
		fields = append(fields, f)
		if !isKey && f != l.WriteCheck {
			nonKey = append(nonKey, f)
		}
	}
	l.Fields = fields
	if len(nonKey) == 0 {
		nonKey = []string{"-"}
	}
	N := verifrt.Param("N", 2)

	ex := l.New()
	l.fillList("ex", ex, N, l.Fields)
	l.assumeInvariant(ex)
	n := l.Len(ex)

	upd := l.New()
	var fp, fd *FilterType
	var sel, elem any
	selSpec := verifrt.Spec{Depth: 2, MaxUint: 999}
	// a peer may put the changeability flag itself into the written item
	nonKeyW := append(append([]string{}, nonKey...), l.WriteCheck)
	withIDs := append(append([]string{}, l.Keys...), nonKeyW...)
	switch shape {
	case "partial-ids":
		fp = vhPartial()
		l.fillList("upd", upd, 1, withIDs)
		verifrt.Assume(l.Len(upd) == 1)
		verifrt.Assume(l.hasAllKeys(l.At(upd, 0)))
	case "partial-noid":
		fp = vhPartial()
		l.fillList("upd", upd, 1, nonKeyW)
		verifrt.Assume(l.Len(upd) == 1)
	case "partial-selector":
		fp = vhPartial()
		sel = l.NewSel()
		verifrt.Fill("sel", sel, selSpec)
		l.SetSel(fp, sel)
		l.fillList("upd", upd, 1, nonKeyW)
		verifrt.Assume(l.Len(upd) == 1)
	case "delete-selector":
		fd = vhDelete()
		sel = l.NewSel()
		verifrt.Fill("sel", sel, selSpec)
		l.SetSel(fd, sel)
	case "delete-elements":
		fd = vhDelete()
		elem = l.NewElem()
		verifrt.Fill("elem", elem, verifrt.Spec{Depth: 1, Only: nonKey})
		l.SetElem(fd, elem)
	case "delete-selector-elements":
		fd = vhDelete()
		sel = l.NewSel()
		verifrt.Fill("sel", sel, selSpec)
		l.SetSel(fd, sel)
		elem = l.NewElem()
		verifrt.Fill("elem", elem, verifrt.Spec{Depth: 1, Only: nonKey})
		l.SetElem(fd, elem)
	case "delete-partial":
		fd = vhDelete()
		sel = l.NewSel()
		verifrt.Fill("sel", sel, selSpec)
		l.SetSel(fd, sel)
		fp = vhPartial()
		l.fillList("upd", upd, 1, withIDs)
		verifrt.Assume(l.Len(upd) == 1)
		verifrt.Assume(l.hasAllKeys(l.At(upd, 0)))
	}

	ref := &vhRef{l: l}
	pre := l.refOf(ex)
	// which stored elements does the write address?
	addressed := make([]bool, n)
	nAddr, nUnchg, nAddrUnchg := 0, 0, 0
	for i := 0; i < n; i++ {
		e := pre.items[i]
		switch shape {
		case "partial-ids":
			addressed[i] = verifrt.Concrete(l.keyEq(e, l.At(upd, 0)))
		case "partial-noid", "delete-elements":
			addressed[i] = true
		case "partial-selector", "delete-selector", "delete-selector-elements":
			addressed[i] = verifrt.Concrete(ref.selMatch(sel, e))
		case "delete-partial":
			addressed[i] = verifrt.Concrete(verifrt.Any(ref.selMatch(sel, e), l.keyEq(e, l.At(upd, 0))))
		}
		chg := verifrt.Concrete(l.changeable(e))
		if addressed[i] {
			nAddr++
		}
		if !chg {
			nUnchg++
			if addressed[i] {
				nAddrUnchg++
			}
		}
	}
	sub := "all-addressed-changeable"
	switch {
	case nAddrUnchg > 0:
		sub = "addresses-unchangeable"
	case nUnchg > 0:
		sub = "unchangeable-unaddressed"
	}
	if l.Len(upd) == 1 && verifrt.Concrete(!vhNil(l.At(upd, 0), l.WriteCheck)) {
		sub += "/written-item-carries-the-flag"
	}
	verifrt.Scenario(fmt.Sprintf("%s/%s/%s", l.Name, shape, sub))

	// ---- the write
	_, ok := ex.UpdateList(true, true, upd, fp, fd)
	verifrt.Reach("written")
	post := l.refOf(ex)
	find := func(r *vhRef, e any) any {
		for _, it := range r.items {
			if verifrt.Concrete(l.keyEq(it, e)) {
				return it
			}
		}
		return nil
	}

	untouched, flags, unaddr := true, true, true
	for i := 0; i < n; i++ {
		e := pre.items[i]
		p := find(post, e)
		chg := verifrt.Concrete(l.changeable(e))
		if !chg {
			untouched = verifrt.All(untouched, p != nil && verifrt.Concrete(verifrt.DeepEq(p, e)))
		}
		if p != nil {
			flags = verifrt.All(flags, vhFieldEq(p, e, l.WriteCheck))
		}
		if !addressed[i] {
			unaddr = verifrt.All(unaddr, p != nil && verifrt.Concrete(verifrt.DeepEq(p, e)))
		}
	}
	verifrt.Assert("unchangeable-element-untouched", untouched)
	verifrt.Assert("flags-unchanged", flags)
	verifrt.Assert("unaddressed-element-unchanged", unaddr)
	if !ok {
		verifrt.Reach("rejected")
		verifrt.Assert("rejected-write-leaves-data-unchanged", pre.equalsList(ex))
	} else {
		verifrt.Reach("accepted")
		applied, appliedAll := true, true
		// per addressed element: has the change the write describes for it been made?
		check := func(i int) bool {
			e := pre.items[i]
			if shape == "partial-selector" && nAddr > 1 {
				return true // a selector matching several items: which one is updated is left open
			}
			if shape == "delete-partial" && verifrt.Concrete(verifrt.All(ref.selMatch(sel, e), l.keyEq(e, l.At(upd, 0)))) {
				return true // deleted and written again: covered by "did-not-drop-a-written-item"
			}
			p := find(post, e)
			deleted := (shape == "delete-selector") || (shape == "delete-partial" && verifrt.Concrete(ref.selMatch(sel, e)) && !verifrt.Concrete(l.keyEq(e, l.At(upd, 0))))
			if deleted {
				return p == nil
			}
			if p == nil {
				return false
			}
			done := true
			if elem != nil {
				for _, f := range nonKey {
					ef := vhF(elem, f)
					if ef.IsValid() && verifrt.Concrete(!ef.IsNil()) {
						done = verifrt.All(done, vhF(p, f).IsNil())
					}
				}
			}
			if l.Len(upd) == 1 {
				u := l.At(upd, 0)
				for _, f := range nonKey {
					uf := vhF(u, f)
					if uf.IsValid() && verifrt.Concrete(!uf.IsNil()) {
						done = verifrt.All(done, vhFieldEq(p, u, f))
					}
				}
			}
			return done
		}
		for i := 0; i < n; i++ {
			if !addressed[i] {
				continue
			}
			c := check(i)
			// success promises that every change was made, also one aimed at a protected element (which
			// the first assertion keeps untouched: such a write cannot be answered with success)
			appliedAll = verifrt.All(appliedAll, c)
			if verifrt.Concrete(l.changeable(pre.items[i])) {
				applied = verifrt.All(applied, c)
			}
		}
		verifrt.Assert("accepted-write-applied-to-every-addressed-changeable-element", applied)
		verifrt.Assert("accepted-write-applied-all-of-its-changes", appliedAll)
		if (shape == "partial-ids" || shape == "delete-partial") && l.Len(upd) == 1 {
			verifrt.Assert("accepted-write-did-not-drop-a-written-item", find(post, l.At(upd, 0)) != nil)
		}
	}

	// ---- relational: vary only the unaddressed elements, the outcome must not change
	if nAddr < n {
		ex2 := l.New()
		l.fillList("alt", ex2, N, l.Fields)
		verifrt.Assume(l.Len(ex2) == n)
		for i := 0; i < n; i++ {
			a, b := l.At(ex2, i), pre.items[i]
			if addressed[i] {
				verifrt.Assume(verifrt.DeepEq(a, b))
			} else {
				verifrt.Assume(l.keyEq(a, b)) // same identifiers, everything else free
				// still not addressed by the write
				switch shape {
				case "partial-selector", "delete-selector", "delete-selector-elements":
					verifrt.Assume(verifrt.Not(ref.selMatch(sel, a)))
				case "delete-partial":
					verifrt.Assume(verifrt.Not(ref.selMatch(sel, a)))
				}
			}
		}
		_, ok2 := ex2.UpdateList(true, true, upd, fp, fd)
		verifrt.Reach("relational")
		verifrt.Assert("outcome-independent-of-unaddressed-elements", ok == ok2)
	}
	verifrt.Observe("ok", ok)
}
