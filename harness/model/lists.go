package model

// Generic machinery for the list-update harnesses (C02, C04, C11). The
// per-type descriptors in vhLists are generated from /repo's current source
// on every run (zz_verif_gen_model.go).

import (
	"fmt"
	"reflect"

	"github.com/enbility/spine-go/verifrt"
)

type vhList struct {
	Name, Item, Function, CmdField string
	Keys, KeyKinds                 []string
	WriteCheck                     string
	Fields, AllFields, SelFields   []string
	SliceField                     string                // first slice-typed item field, if any
	SetSlice                       func(it any, n int) // sets it to a slice of n zero elements
	New                            func() Updater
	Items                          func(l any) any
	Slice                          func(l any) any
	Len                            func(l any) int
	At                             func(l any, i int) any
	IsRes                          func(r any) bool // the value is a list of the item type
	ResLen                         func(r any) int
	ResAt                          func(r any, i int) any
	SetItems                       func(l any, r any)
	NewSel                         func() any
	SetSel                         func(f *FilterType, s any)
	NewElem                        func() any
	SetElem                        func(f *FilterType, e any)
}

var vhLists []*vhList

// vhFunc describes one function that has a payload field in CmdType (generated).
type vhFunc struct {
	Function, CmdField, Payload string
	NewPayload                  func() any
	NewSel, NewElem             func() any
	ElemShared                  bool
}

var vhFuncs []*vhFunc

// VHFunc is the exported view used by the harnesses in package spine.
type VHFunc struct {
	Function        FunctionType
	Payload         string
	NewPayload      func() any
	NewSel, NewElem func() any
	ElemShared      bool
}

func VHFuncs() []VHFunc {
	var out []VHFunc
	for _, f := range vhFuncs {
		out = append(out, VHFunc{FunctionType(f.Function), f.Payload, f.NewPayload, f.NewSel, f.NewElem, f.ElemShared})
	}
	return out
}

func vhListByName(name string) *vhList {
	for _, l := range vhLists {
		if l.Name == name {
			return l
		}
	}
	panic("verif: unknown list type " + name)
}

// quick-tier representatives: one key + writecheck, two keys, plain measurement list
var vhQuickTypes = []string{"LoadControlLimitListDataType", "ElectricalConnectionPermittedValueSetListDataType", "MeasurementListDataType"}

// vhPickCase spreads (list type, shape, size configuration) triples over the workers.
func vhPickCase(shapes, sizes int) (*vhList, int, int) {
	var l *vhList
	var c int
	if verifrt.Param("alltypes", 0) == 0 {
		c = verifrt.ShardChoice("case", len(vhQuickTypes)*shapes*sizes)
		l = vhListByName(vhQuickTypes[c/(shapes*sizes)])
	} else {
		c = verifrt.ShardChoice("case", len(vhLists)*shapes*sizes)
		l = vhLists[c/(shapes*sizes)]
	}
	c %= shapes * sizes
	// trim the symbolic item fields to keys + writecheck + Param("extra") others
	extra := verifrt.Param("extra", 1)
	var fields []string
	n := 0
	for _, f := range l.Fields {
		isKey := f == l.WriteCheck
		for _, k := range l.Keys {
			if k == f {
				isKey = true
			}
		}
		if !isKey {
			n++
			if n > extra {
				continue
			}
		}
		fields = append(fields, f)
	}
	lc := *l
	lc.Fields = fields
	return &lc, c / sizes, c % sizes
}

func vhF(item any, name string) reflect.Value { return reflect.ValueOf(item).Elem().FieldByName(name) }

func vhNil(item any, name string) bool {
	f := vhF(item, name)
	if !f.IsValid() {
		return true
	}
	return f.IsNil()
}

// field values of two items are deeply equal (absent == absent)
func vhFieldEq(a, b any, name string) bool {
	return verifrt.DeepEq(vhF(a, name).Interface(), vhF(b, name).Interface())
}

func (l *vhList) hasAllKeys(item any) bool {
	ok := true
	for _, k := range l.Keys {
		ok = verifrt.All(ok, !vhNil(item, k))
	}
	return ok
}

func (l *vhList) hasNoKey(item any) bool {
	ok := true
	for _, k := range l.Keys {
		ok = verifrt.All(ok, vhNil(item, k))
	}
	return ok
}

// both items carry all identifiers and they are equal
func (l *vhList) keyEq(a, b any) bool {
	ok := true
	for _, k := range l.Keys {
		ok = verifrt.All(ok, !vhNil(a, k), !vhNil(b, k), vhFieldEq(a, b, k))
	}
	return ok
}

func (l *vhList) numericKeys() bool {
	for _, k := range l.KeyKinds {
		if k != "uint" {
			return false
		}
	}
	return len(l.Keys) > 0
}

// orderKeys: the unsigned-integer identifiers that precede the first identifier of another
// kind; lists are ordered by these ("ordered by numeric identifier").
func (l *vhList) orderKeys() []string {
	var out []string
	for i, k := range l.KeyKinds {
		if k != "uint" {
			break
		}
		out = append(out, l.Keys[i])
	}
	return out
}

func vhUint(item any, name string) uint64 { return vhF(item, name).Elem().Uint() }

// lexicographic a < b over numeric keys (keys present)
func (l *vhList) keyLess(a, b any) bool {
	less := false
	ok := l.orderKeys()
	for i := len(ok) - 1; i >= 0; i-- {
		x, y := vhUint(a, ok[i]), vhUint(b, ok[i])
		less = verifrt.Any(x < y, verifrt.All(x == y, less))
	}
	return less
}

func (l *vhList) keyLessEq(a, b any) bool { return verifrt.Not(l.keyLess(b, a)) }

// fillList stores a symbolic list of up to max items in list object lst.
func (l *vhList) fillList(name string, lst any, max int, fields []string) {
	if max == 0 {
		max = -1
	}
	verifrt.Fill(name, l.Items(lst), verifrt.Spec{MaxLen: max, Depth: 3, Only: fields, Skip: []string{"TimePeriodType"}, MaxUint: 999})
	for i := 0; i < l.Len(lst); i++ {
		l.assumeWellFormedKeys(l.At(lst, i))
	}
}

// Address-typed identifiers (device / entity / feature address) are compared by the implementation through
// their text form, in which an absent device and an empty device string coincide and an address without
// anything in it is no identifier at all. Such degenerate addresses are not valid SPINE addresses and are
// left out: a device part, where present, is a non-empty string, and a device address has its device part.
func (l *vhList) assumeWellFormedKeys(item any) {
	for i, k := range l.Keys {
		if i >= len(l.KeyKinds) || l.KeyKinds[i] != "struct" {
			continue
		}
		f := vhF(item, k)
		if verifrt.Concrete(f.IsNil()) {
			continue
		}
		d := f.Elem().FieldByName("Device")
		if !d.IsValid() {
			continue
		}
		if f.Elem().NumField() == 1 {
			verifrt.Assume(!d.IsNil())
		}
		if verifrt.Concrete(!d.IsNil()) {
			verifrt.Assume(d.Elem().String() != "")
		}
	}
}

// assumeInvariant: every item has all identifiers, identifiers pairwise distinct, ascending when numeric.
func (l *vhList) assumeInvariant(lst any) {
	n := l.Len(lst)
	for i := 0; i < n; i++ {
		verifrt.Assume(l.hasAllKeys(l.At(lst, i)))
	}
	for i := 0; i < n; i++ {
		for j := i + 1; j < n; j++ {
			verifrt.Assume(verifrt.Not(l.keyEq(l.At(lst, i), l.At(lst, j))))
		}
	}
	if l.numericKeys() {
		for i := 0; i+1 < n; i++ {
			verifrt.Assume(l.keyLess(l.At(lst, i), l.At(lst, i+1)))
		}
	} else if len(l.orderKeys()) > 0 {
		for i := 0; i+1 < n; i++ {
			verifrt.Assume(l.keyLessEq(l.At(lst, i), l.At(lst, i+1)))
		}
	}
}

// assumeUnique: every item carries its identifiers and no two items share them; the order is free (a
// full replacement stores the items in the order given).
func (l *vhList) assumeUnique(lst any) {
	n := l.Len(lst)
	for i := 0; i < n; i++ {
		verifrt.Assume(l.hasAllKeys(l.At(lst, i)))
	}
	for i := 0; i < n; i++ {
		for j := i + 1; j < n; j++ {
			verifrt.Assume(verifrt.Not(l.keyEq(l.At(lst, i), l.At(lst, j))))
		}
	}
}

// checkInvariant asserts the same on a result slice.
func (l *vhList) checkInvariant(prefix string, res any) {
	n := l.ResLen(res)
	uniq, sorted := true, true
	for i := 0; i < n; i++ {
		for j := i + 1; j < n; j++ {
			uniq = verifrt.All(uniq, verifrt.Not(l.keyEq(l.ResAt(res, i), l.ResAt(res, j))))
		}
	}
	verifrt.Assert(prefix+"one-item-per-identifier", uniq)
	if len(l.orderKeys()) > 0 {
		for i := 0; i+1 < n; i++ {
			a, b := l.ResAt(res, i), l.ResAt(res, i+1)
			sorted = verifrt.All(sorted, verifrt.Implies(verifrt.All(l.hasAllKeys(a), l.hasAllKeys(b)), l.keyLessEq(a, b)))
		}
		verifrt.Assert(prefix+"ordered-by-identifier", sorted)
	}
}

// ---- reference semantics on private copies (plain loops, no repo update code)

type vhRef struct {
	l     *vhList
	items []any // *Item, private copies
}

func (l *vhList) refOf(lst any) *vhRef {
	r := &vhRef{l: l}
	for i := 0; i < l.Len(lst); i++ {
		r.items = append(r.items, verifrt.Freeze(l.At(lst, i)))
	}
	return r
}

func (l *vhList) refOfResult(res any) *vhRef {
	r := &vhRef{l: l}
	for i := 0; i < l.ResLen(res); i++ {
		r.items = append(r.items, verifrt.Freeze(l.ResAt(res, i)))
	}
	return r
}

// copy src's present fields into dst
func (r *vhRef) overlay(dst, src any) {
	for _, f := range r.l.AllFields {
		sf := vhF(src, f)
		if sf.Kind() != reflect.Ptr && sf.Kind() != reflect.Slice {
			continue
		}
		if verifrt.Concrete(!sf.IsNil()) {
			vhF(dst, f).Set(vhF(verifrt.Freeze(src), f))
		}
	}
}

// selector matches item: every present selector field with a same-named item field equals it;
// an item lacking that field does not match.
func (r *vhRef) selMatch(sel, item any) bool {
	m := true
	for _, f := range r.l.SelFields {
		sf := vhF(sel, f)
		if sf.Kind() != reflect.Ptr {
			continue
		}
		itf := vhF(item, f)
		if !itf.IsValid() {
			continue
		}
		m = verifrt.All(m, verifrt.Any(sf.IsNil(), verifrt.All(!itf.IsNil(), verifrt.DeepEq(sf.Interface(), itf.Interface()))))
	}
	return m
}

func (r *vhRef) clearFields(item, elem any) {
	for _, f := range r.l.AllFields {
		ef := vhF(elem, f)
		if !ef.IsValid() {
			continue
		}
		if verifrt.Concrete(!ef.IsNil()) {
			itf := vhF(item, f)
			itf.Set(reflect.Zero(itf.Type()))
		}
	}
}

func (r *vhRef) deleteWhere(sel, elem any) {
	var out []any
	for _, it := range r.items {
		match := sel == nil || verifrt.Concrete(r.selMatch(sel, it))
		switch {
		case match && elem != nil:
			r.clearFields(it, elem)
			out = append(out, it)
		case match:
		default:
			out = append(out, it)
		}
	}
	r.items = out
}

// merge the identified items of upd (in order), then sort by numeric identifier
func (r *vhRef) mergeByID(l *vhList, upd any) {
	for i := 0; i < l.Len(upd); i++ {
		u := l.At(upd, i)
		found := false
		for _, it := range r.items {
			if verifrt.Concrete(l.keyEq(it, u)) {
				r.overlay(it, u)
				found = true
				break
			}
		}
		if !found {
			r.items = append(r.items, verifrt.Freeze(u))
		}
	}
	if len(l.orderKeys()) > 0 {
		// stable insertion sort
		for i := 1; i < len(r.items); i++ {
			for j := i; j > 0 && verifrt.Concrete(l.keyLess(r.items[j], r.items[j-1])); j-- {
				r.items[j], r.items[j-1] = r.items[j-1], r.items[j]
			}
		}
	}
}

func (r *vhRef) equalsResult(res any) bool {
	if r.l.ResLen(res) != len(r.items) {
		return false
	}
	eq := true
	for i, it := range r.items {
		eq = verifrt.All(eq, verifrt.DeepEq(it, r.l.ResAt(res, i)))
	}
	return eq
}

// equalsResultByKey compares as sets keyed by identifier (for types whose order is not determined).
func (r *vhRef) equalsResultByKey(res any) bool {
	if r.l.ResLen(res) != len(r.items) {
		return false
	}
	eq := true
	for _, it := range r.items {
		found := false
		for j := 0; j < r.l.ResLen(res); j++ {
			if verifrt.Concrete(r.l.keyEq(it, r.l.ResAt(res, j))) {
				eq = verifrt.All(eq, verifrt.DeepEq(it, r.l.ResAt(res, j)))
				found = true
				break
			}
		}
		if !found {
			return false
		}
	}
	return eq
}

func (r *vhRef) equalsList(lst any) bool {
	if r.l.Len(lst) != len(r.items) {
		return false
	}
	eq := true
	for i, it := range r.items {
		eq = verifrt.All(eq, verifrt.DeepEq(it, r.l.At(lst, i)))
	}
	return eq
}

func vhPartial() *FilterType {
	return &FilterType{CmdControl: &CmdControlType{Partial: &ElementTagType{}}}
}
func vhDelete() *FilterType {
	return &FilterType{CmdControl: &CmdControlType{Delete: &ElementTagType{}}}
}

func vhObserveLen(name string, n int) { verifrt.Observe(name, n) }

var _ = fmt.Sprint
