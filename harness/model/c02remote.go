package model

import (
	"fmt"
	"reflect"

	"github.com/enbility/spine-go/verifrt"
)

// VHC02Store is a replicated function-data store reached through the receive path of package spine.
type VHC02Store interface {
	// Deliver sends one reply / notify command of the peer that owns the data; returns false if refused.
	Deliver(cmd CmdType, notify bool) bool
	// Current is what the API hands out for the function afterwards (a pointer to the list object, or nil).
	Current() any
}

// VHC02Remote: the SPINE restricted-exchange rules through the real receive path. The peer first sends the
// whole list (full reply), then one update of any filter shape as reply or notify; what the API returns for
// the remote feature afterwards equals the reference fold, holds one item per identifier in order, and the
// same update once more changes nothing.
func VHC02Remote(mk func(fn FunctionType) VHC02Store) {
	l, si, zi := vhPickCase(len(vhC02Shapes), 2)
	shape := vhC02Shapes[si]
	notify := zi == 1
	verifrt.Scenario(fmt.Sprintf("%s/%s/%s", l.Name, shape, map[bool]string{false: "reply", true: "notify"}[notify]))
	if l.Function == "" || l.CmdField == "" {
		return
	}
	store := mk(FunctionType(l.Function))
	if store == nil {
		verifrt.Reach("no-store-for-function")
		return
	}
	N := verifrt.Param("N", 2)
	ex := l.New()
	l.fillList("ex", ex, N, l.Fields)
	l.assumeInvariant(ex)
	mkCmd := func(data any, fp, fd *FilterType) CmdType {
		cmd := CmdType{}
		vhF(&cmd, l.CmdField).Set(reflect.ValueOf(data))
		if fp != nil || fd != nil {
			fn := FunctionType(l.Function)
			cmd.Function = &fn
		}
		if fd != nil {
			cmd.Filter = append(cmd.Filter, *fd)
		}
		if fp != nil {
			cmd.Filter = append(cmd.Filter, *fp)
		}
		return cmd
	}
	verifrt.Assert("full-reply-is-accepted", store.Deliver(mkCmd(ex, nil, nil), false))

	upd := l.New()
	var fp, fd *FilterType
	var sel, elem any
	nonKey := []string{}
	for _, f := range l.Fields {
		isKey := false
		for _, k := range l.Keys {
			if k == f {
				isKey = true
			}
		}
		if !isKey {
			nonKey = append(nonKey, f)
		}
	}
	if len(nonKey) == 0 {
		nonKey = []string{"-"}
	}
	selSpec := verifrt.Spec{Depth: verifrt.Param("selDepth", 2), MaxUint: 999}
	switch shape {
	case "partial-ids":
		fp = vhPartial()
		l.fillList("upd", upd, 1, l.Fields)
		for i := 0; i < l.Len(upd); i++ {
			verifrt.Assume(l.hasAllKeys(l.At(upd, i)))
		}
	case "partial-noid":
		fp = vhPartial()
		l.fillList("upd", upd, 1, nonKey)
		verifrt.Assume(l.Len(upd) == 1)
	case "partial-selector":
		fp = vhPartial()
		sel = l.NewSel()
		verifrt.Fill("sel", sel, selSpec)
		l.SetSel(fp, sel)
		l.fillList("upd", upd, 1, nonKey)
		verifrt.Assume(l.Len(upd) == 1)
	case "delete-selector":
		fd = vhDelete()
		sel = l.NewSel()
		verifrt.Fill("sel", sel, selSpec)
		l.SetSel(fd, sel)
	case "delete-elements":
		fd = vhDelete()
		elem = l.NewElem()
		verifrt.Fill("elem", elem, verifrt.Spec{Depth: 1, Only: nonKey})
		l.SetElem(fd, elem)
	case "delete-selector-elements":
		fd = vhDelete()
		sel = l.NewSel()
		verifrt.Fill("sel", sel, selSpec)
		l.SetSel(fd, sel)
		elem = l.NewElem()
		verifrt.Fill("elem", elem, verifrt.Spec{Depth: 1, Only: nonKey})
		l.SetElem(fd, elem)
	case "delete-partial":
		fd = vhDelete()
		sel = l.NewSel()
		verifrt.Fill("sel", sel, selSpec)
		l.SetSel(fd, sel)
		fp = vhPartial()
		l.fillList("upd", upd, 1, l.Fields)
		for i := 0; i < l.Len(upd); i++ {
			verifrt.Assume(l.hasAllKeys(l.At(upd, i)))
		}
	}

	// ---- reference fold
	ref := l.refOf(ex)
	asserted := true
	switch shape {
	case "partial-ids":
		ref.mergeByID(l, upd)
	case "partial-noid":
		if len(ref.items) == 0 {
			asserted = false
		}
		for _, it := range ref.items {
			ref.overlay(it, l.At(upd, 0))
		}
	case "partial-selector":
		matches := 0
		var hit any
		for _, it := range ref.items {
			if verifrt.Concrete(ref.selMatch(sel, it)) {
				matches++
				if hit == nil {
					hit = it
				}
			}
		}
		switch {
		case matches == 1:
			ref.overlay(hit, l.At(upd, 0))
		case matches > 1:
			asserted = false
		}
	case "delete-selector":
		ref.deleteWhere(sel, nil)
	case "delete-elements":
		ref.deleteWhere(nil, elem)
	case "delete-selector-elements":
		ref.deleteWhere(sel, elem)
	case "delete-partial":
		ref.deleteWhere(sel, nil)
		ref.mergeByID(l, upd)
	}

	ok := store.Deliver(mkCmd(upd, fp, fd), notify)
	verifrt.Reach("update-delivered")
	verifrt.Assert("update-is-accepted", ok)
	cur := store.Current()
	verifrt.Assert("api-returns-data-of-the-list-type", cur != nil && reflect.TypeOf(cur) == reflect.TypeOf(l.New()))
	if cur == nil || reflect.TypeOf(cur) != reflect.TypeOf(l.New()) {
		return
	}
	cmp := func(r *vhRef, lst any) bool {
		if !l.numericKeys() && (shape == "partial-ids" || shape == "delete-partial") {
			return r.equalsResultByKey(l.Slice(lst))
		}
		return r.equalsList(lst)
	}
	if asserted {
		verifrt.Reach("compared-with-reference")
		verifrt.Assert("replicated-data-equals-reference-fold", cmp(ref, cur))
	}
	l.checkInvariant("replicated-", l.Slice(cur))
	// the same update once more
	first := l.refOf(cur)
	_ = store.Deliver(mkCmd(upd, fp, fd), notify)
	touches := false
	if sel != nil {
		for i := 0; i < l.Len(upd); i++ {
			for _, f := range l.SelFields {
				uf := vhF(l.At(upd, i), f)
				if uf.IsValid() && vhF(sel, f).Kind() == reflect.Ptr {
					touches = verifrt.Any(touches, verifrt.All(!vhF(sel, f).IsNil(), !uf.IsNil()))
				}
			}
		}
	}
	if cur2 := store.Current(); cur2 != nil && reflect.TypeOf(cur2) == reflect.TypeOf(cur) {
		verifrt.Assert("second-application-changes-nothing", verifrt.Any(touches, first.equalsList(cur2)))
	}
	vhObserveLen("replicated-len", l.Len(cur))
}
