package model

import (
	"fmt"
	"time"

	"github.com/enbility/spine-go/verifrt"
)

func init() {
	verifrt.Register("VH_c19_scaled", VH_c19_scaled)
}

var vhPow10 = [...]float64{1, 10, 100, 1000, 10000}

// C19 clause 1: a decimal k*10^-d (0<=d<=4) converts to exactly Number=k, Scale=-d and reads back within 0.00005.
func VH_c19_scaled() {
	// the (d, sub-range of k) pairs are spread over the workers; d=4 is the hard case for the
	// floating-point solver and gets its own (finer) number of sub-ranges
	ranges := verifrt.Param("ranges", 1)
	ranges4 := verifrt.Param("ranges4", ranges)
	c := verifrt.ShardChoice("case", 4*ranges+ranges4)
	d, r := c/ranges, c%ranges
	if c >= 4*ranges {
		d, r, ranges = 4, c-4*ranges, ranges4
	}
	k := verifrt.I32("k")
	bound := int64(1) << uint(verifrt.Param("kbits", 20))
	lo := -bound + int64(r)*(2*bound)/int64(ranges)
	hi := -bound + int64(r+1)*(2*bound)/int64(ranges)
	verifrt.Scenario(fmt.Sprintf("d=%d k in (%d,%d]", d, lo, hi))
	verifrt.Assume(verifrt.All(int64(k) > lo, int64(k) <= hi, int64(k) < bound))
	if d > 0 {
		verifrt.Assume(k%10 != 0)
	}
	v := float64(k) / vhPow10[d]
	verifrt.AssumeDecimals(v, d)
	s := NewScaledNumberType(v)
	verifrt.Reach("converted")
	// Number == k, compared as floats (exact below 2^53; the form solvers decide fastest)
	verifrt.Assert("number-exact", float64(*s.Number) == float64(k))
	if k == 0 {
		verifrt.Assert("scale-zero-for-zero", int(*s.Scale) == 0)
	} else {
		verifrt.Assert("scale-exact", int(*s.Scale) == -d)
	}
	verifrt.Observe("number", int64(*s.Number))
	verifrt.Observe("scale", int(*s.Scale))
}

func init() {
	verifrt.Register("VH_c19_duration", VH_c19_duration)
	verifrt.Register("VH_c19_getvalue", VH_c19_getvalue)
	verifrt.Register("VH_c19_relative_end", VH_c19_relative_end)
}

// C19 durations: n*100ms survives NewDurationType -> text -> GetTimeDuration exactly (integer encoding).
func VH_c19_duration() {
	// below 3277 days (the range in which the period library keeps days, hours, minutes, seconds), split at
	// 3277 hours (where the library switches from hours to days) and into sub-ranges of the day regime; one
	// (sign, range) case per worker keeps each integer query small
	const hoursRegime = int64(3277) * 36000
	max := int64(3277) * 24 * 36000
	R := verifrt.Param("ranges", 7)
	cs := verifrt.ShardChoice("case", 2*(R+1))
	sign, rg := cs%2, cs/2
	n := verifrt.I64("n")
	lo, hi := int64(0), hoursRegime
	if rg > 0 {
		w := (max - hoursRegime + int64(R) - 1) / int64(R)
		lo = hoursRegime + int64(rg-1)*w
		hi = lo + w
		if hi > max {
			hi = max
		}
	}
	verifrt.Assume(verifrt.All(n >= lo, n < hi))
	d := time.Duration(n) * 100 * time.Millisecond
	if sign == 1 {
		d = -d
	}
	verifrt.Scenario([]string{"positive", "negative"}[sign])
	dt := NewDurationType(d)
	back, err := dt.GetTimeDuration()
	verifrt.Reach("converted")
	verifrt.Assert("duration-text-parses", err == nil)
	verifrt.Assert("duration-survives-the-round-trip-exactly", back == d)
	verifrt.Observe("back", int64(back))
}

// C19: GetValue of a scaled number denotes number*10^scale (catches narrowing of the number).
func VH_c19_getvalue() {
	sc := verifrt.ShardChoice("scale", 5)
	verifrt.Scenario(fmt.Sprintf("scale=-%d", sc))
	n := verifrt.I64("number")
	verifrt.Assume(verifrt.All(n > -(1<<53), n < (1<<53)))
	num, scale := NumberType(n), ScaleType(-sc)
	s := &ScaledNumberType{Number: &num, Scale: &scale}
	g := s.GetValue()
	verifrt.Reach("read")
	nf := float64(n)
	if sc == 0 {
		verifrt.Assert("value-is-the-number-for-scale-0", g == nf)
	} else {
		// same sign, not larger in magnitude than the number, and at least a tenth of it per decimal place removed
		lo, hi := nf/(vhPow10[sc]*2), nf
		if n < 0 {
			lo, hi = nf, nf/(vhPow10[sc]*2)
		}
		verifrt.Assert("value-has-the-sign-and-magnitude-of-number-times-10^scale", verifrt.All(g >= lo-1, g <= hi+1))
	}
	verifrt.Observe("isnan", g != g)
}

// C19: a relative end time is read back as the remaining duration, to the second (symbolic clock).
func VH_c19_relative_end() {
	secs := verifrt.I64("seconds")
	verifrt.Assume(verifrt.All(secs >= 0, secs <= 1000000))
	verifrt.Scenario("relative-end-time")
	D := time.Duration(secs) * time.Second
	tp := NewTimePeriodTypeWithRelativeEndTime(D)
	got, err := tp.GetDuration()
	verifrt.Reach("read-back")
	verifrt.Assert("relative-end-time-is-readable", err == nil)
	// the two clock readings taken inside the code
	now0, now1 := verifrt.ClockReading(1), verifrt.ClockReading(2)
	want := D - time.Duration(now1-now0)
	diff := got - want
	verifrt.Assert("remaining-duration-to-the-second", verifrt.All(diff <= time.Second, diff >= -time.Second))
	verifrt.Assert("remaining-duration-is-whole-seconds", got%time.Second == 0)
	verifrt.Observe("err", err == nil)
}
