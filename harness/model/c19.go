package model

import (
	"fmt"

	"github.com/enbility/spine-go/verifrt"
)

func init() {
	verifrt.Register("VH_c19_scaled", VH_c19_scaled)
}

var vhPow10 = [...]float64{1, 10, 100, 1000, 10000}

// C19 clause 1: a decimal k*10^-d (0<=d<=4) converts to exactly Number=k, Scale=-d and reads back within 0.00005.
func VH_c19_scaled() {
	// the (d, sub-range of k) pairs are spread over the workers
	ranges := verifrt.Param("ranges", 1)
	c := verifrt.ShardChoice("case", 5*ranges)
	d, r := c/ranges, c%ranges
	k := verifrt.I32("k")
	bound := int64(1) << uint(verifrt.Param("kbits", 20))
	lo := -bound + int64(r)*(2*bound)/int64(ranges)
	hi := -bound + int64(r+1)*(2*bound)/int64(ranges)
	verifrt.Scenario(fmt.Sprintf("d=%d k in (%d,%d]", d, lo, hi))
	verifrt.Assume(verifrt.All(int64(k) > lo, int64(k) <= hi, int64(k) < bound))
	if d > 0 {
		verifrt.Assume(k%10 != 0)
	}
	v := float64(k) / vhPow10[d]
	verifrt.AssumeDecimals(v, d)
	s := NewScaledNumberType(v)
	verifrt.Reach("converted")
	// Number == k, compared as floats (exact below 2^53; the form solvers decide fastest)
	verifrt.Assert("number-exact", float64(*s.Number) == float64(k))
	if k == 0 {
		verifrt.Assert("scale-zero-for-zero", int(*s.Scale) == 0)
	} else {
		verifrt.Assert("scale-exact", int(*s.Scale) == -d)
	}
	verifrt.Observe("number", int64(*s.Number))
	verifrt.Observe("scale", int(*s.Scale))
}
