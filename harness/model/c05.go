package model

import (
	"fmt"

	"github.com/enbility/spine-go/verifrt"
)

func init() {
	verifrt.Register("VH_c05_filters", VH_c05_filters)
}

var vhC05Shapes = []string{"partial-selector", "delete-selector", "delete-selector-elements"}

// C05 (update engine): a structurally valid filtered update - every selector field present, whatever its
// type (identifiers, enums, address structures, ...) - applied to stored data in which every field of the
// item is present, for EVERY list type of the data model: no panic. (What the update must compute is C02's
// business; here only the absence of a crash is decided, so the all-types sweep stays cheap.)
func VH_c05_filters() {
	c := verifrt.ShardChoice("case", len(vhLists)*len(vhC05Shapes))
	l, shape := vhLists[c/len(vhC05Shapes)], vhC05Shapes[c%len(vhC05Shapes)]
	verifrt.Scenario(fmt.Sprintf("%s/%s", l.Name, shape))
	full := verifrt.Spec{Depth: 2, MaxLen: 1, MaxUint: 999, PresentAll: true, Skip: []string{"TimePeriodType"}}
	ex := l.New()
	l.fillList("ex", ex, 1, l.AllFields)
	verifrt.Assume(l.Len(ex) == 1)
	verifrt.Fill("ex[0]", l.At(ex, 0), full)
	upd := l.New()
	var fp, fd *FilterType
	sel := l.NewSel()
	verifrt.Fill("sel", sel, full)
	switch shape {
	case "partial-selector":
		fp = vhPartial()
		l.SetSel(fp, sel)
		l.fillList("upd", upd, 1, l.Fields)
		verifrt.Assume(l.Len(upd) == 1)
		verifrt.Fill("upd[0]", l.At(upd, 0), verifrt.Spec{Depth: 1, MaxUint: 999, PresentAll: true, Only: l.Fields, Skip: []string{"TimePeriodType"}})
	case "delete-selector":
		fd = vhDelete()
		l.SetSel(fd, sel)
	case "delete-selector-elements":
		fd = vhDelete()
		l.SetSel(fd, sel)
		elem := l.NewElem()
		verifrt.Fill("elem", elem, verifrt.Spec{Depth: 1, PresentAll: true})
		l.SetElem(fd, elem)
	}
	// first as a local update that is not persisted, then as a remote write that is
	_, ok1 := ex.UpdateList(false, false, upd, fp, fd)
	_, ok2 := ex.UpdateList(true, true, upd, fp, fd)
	verifrt.Reach("updated")
	verifrt.Observe("ok", ok1 && ok2)
}
