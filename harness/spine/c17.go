package spine

import (
	"fmt"
	"time"

	"github.com/enbility/spine-go/api"
	"github.com/enbility/spine-go/model"
	"github.com/enbility/spine-go/util"
	"github.com/enbility/spine-go/verifrt"
)

func init() {
	verifrt.Register("VH_c17_pairs", VH_c17_pairs)
	verifrt.Register("VH_c17_races", VH_c17_races)
}

// C17 (data-race half): the same operation pairs with the engine's happens-before race detection on.
// Every execution explored (both orders of the two operations, handler goroutines, timers) is checked for
// two conflicting accesses of repository code that no synchronisation orders.
func VH_c17_races() { vhC17(true) }

// (since round 3 the completion harness runs with race detection as well: its pre-emption bound 1
// explores executions in which an unprotected access is not accidentally ordered by an unrelated lock)
func VH_c17_pairs() { vhC17(true) }

type vhC17Handler struct{ n int }

func (h *vhC17Handler) HandleEvent(p api.EventPayload) { h.n++ }

var vhC17Ops = []string{
	"inbound-read", "inbound-write", "inbound-subscribe", "inbound-bind", "inbound-discovery-read", "inbound-notify",
	"inbound-entity-removed", "local-set-data", "local-update-data", "use-case-change", "add-entity", "remove-entity",
	"request-remote-data", "approval-verdict", "remove-connection", "event-subscribe-unsubscribe", "subscribe-to-remote",
	"get-or-add-feature", "add-function-type", "use-case-change-other-entity", "inbound-reply", "bind-to-remote",
	"read-local-and-remote-data", "inbound-subscription-list-read", "client-side-bookkeeping-queries",
	"add-response-callback", "inbound-discovery-update-of-an-entity", "remote-tree-queries", "inbound-unbind-with-stale-device",
}

// C17 (the half a scheduler can decide): every pair of operations of the public API / the receive
// path, run concurrently in every interleaving within the pre-emption bound, completes: no thread is
// left blocked on the stack's own locks. Data races in the sense of the memory model are outside.
func vhC17(race bool) {
	n := len(vhC17Ops)
	var pairs [][2]int
	for i := 0; i < n; i++ {
		for j := i; j < n; j++ {
			pairs = append(pairs, [2]int{i, j})
		}
	}
	pc := pairs[verifrt.ShardChoice("pair", len(pairs))]
	verifrt.Scenario(vhC17Ops[pc[0]] + " || " + vhC17Ops[pc[1]])

	w := vhNewWorld(vhWorldOpts{secondEntity: true})
	fn := model.FunctionTypeLoadControlLimitListData
	bm := w.L.BindingManager().(*BindingManager)
	sm := w.L.SubscriptionManager().(*SubscriptionManager)
	cA := w.rA.FeatureByAddress(vhAddr("A", []uint{1}, 1))
	cB := w.rB.FeatureByAddress(vhAddr("B", []uint{1}, 1))
	bm.bindingEntries = append(bm.bindingEntries, &api.BindingEntry{Id: 1, ServerFeature: w.F1, ClientFeature: cA})
	vhSetBindingNum(bm, 1)
	sm.subscriptionEntries = append(sm.subscriptionEntries,
		&api.SubscriptionEntry{Id: 1, ServerFeature: w.F1, ClientFeature: cA},
		&api.SubscriptionEntry{Id: 2, ServerFeature: w.F1, ClientFeature: cB})
	vhSetSubscriptionNum(sm, 2)
	w.F1.SetData(fn, vhTwoLimits())
	w.F4.SetData(fn, vhTwoLimits())
	w.F1.SetWriteApprovalTimeout(time.Second)
	// an application that approves writes asynchronously, and one application-level event handler
	var pending []*api.Message
	_ = w.F1.AddWriteApprovalCallback(func(m *api.Message) { pending = append(pending, m) })
	app := &vhC17Handler{}
	_ = Events.Subscribe(app)
	nmL := vhAddr("L", []uint{0}, 0)
	// one write of A is pending approval already
	vhDeliver(w.rA, model.DatagramType{Header: w.hdr(vhAddr("A", []uint{1}, 1), w.F1.Address(), model.CmdClassifierTypeWrite, true),
		Payload: model.PayloadType{Cmd: []model.CmdType{{LoadControlLimitListData: vhLimitList(10, true)}}}})
	verifrt.WaitIdle()
	verifrt.Assume(len(pending) == 1)
	first := pending[0]
	// the local client has one unanswered request out to A's server feature, with a response callback waiting
	var ref0 model.MsgCounterType = 77
	if c0, _ := w.F3.RequestRemoteData(fn, nil, nil, w.rA.FeatureByAddress(vhAddr("A", []uint{1}, 2))); c0 != nil {
		ref0 = *c0
	}
	_ = w.F3.AddResponseCallback(ref0, func(api.ResponseMessage) {})
	extra := NewEntityLocal(w.L, model.EntityTypeTypeCEM, NewAddressEntityType([]uint{5}), 0)
	extra.GetOrAddFeature(model.FeatureTypeTypeLoadControl, model.RoleTypeServer)

	// The datagrams of ONE connection are handled one after the other (a connection has one reader), so two
	// inbound operations run concurrently only on different connections. Some inbound operations make sense
	// for peer A only (the bound writer, the announced server feature, the requested peer): the other inbound
	// operation of the pair then arrives on B's connection; a pair of two A-only inbound operations is not a
	// schedule the stack can see and is skipped.
	onlyA := func(op int) bool {
		switch vhC17Ops[op] {
		case "inbound-write", "inbound-notify", "inbound-entity-removed", "inbound-reply", "inbound-discovery-update-of-an-entity", "inbound-unbind-with-stale-device":
			return true
		}
		return false
	}
	inbound := func(op int) bool { return len(vhC17Ops[op]) > 8 && vhC17Ops[op][:8] == "inbound-" }
	if onlyA(pc[0]) && onlyA(pc[1]) {
		verifrt.Reach("same-connection-pair-skipped")
		return
	}
	peerOf := [2]int{0, 1} // operations of slot 1 use peer B where a peer is involved, so that two connections are active
	if onlyA(pc[1]) {
		peerOf = [2]int{1, 0}
	}
	_ = inbound
	// every datagram is prepared up front (the counter of the harness world is not shared between threads)
	mk := func(op, slot int) func() {
		p := peerOf[slot]
		if onlyA(op) {
			p = 0
		}
		r, _, dev := w.peer(p)
		nm := vhAddr(dev, []uint{0}, 0)
		ft := model.FeatureTypeTypeLoadControl
		switch vhC17Ops[op] {
		case "inbound-read":
			d := model.DatagramType{Header: w.hdr(vhAddr(dev, []uint{1}, 1), w.F1.Address(), model.CmdClassifierTypeRead, false), Payload: model.PayloadType{Cmd: []model.CmdType{{LoadControlLimitListData: &model.LoadControlLimitListDataType{}}}}}
			return func() { vhDeliver(r, d) }
		case "inbound-write":
			d := model.DatagramType{Header: w.hdr(vhAddr("A", []uint{1}, 1), w.F1.Address(), model.CmdClassifierTypeWrite, true), Payload: model.PayloadType{Cmd: []model.CmdType{{LoadControlLimitListData: vhLimitList(11, true)}}}}
			return func() { vhDeliver(r, d) }
		case "inbound-subscribe":
			req := &model.NodeManagementSubscriptionRequestCallType{SubscriptionRequest: &model.SubscriptionManagementRequestCallType{ClientAddress: vhAddr(dev, []uint{1}, 1), ServerAddress: w.F4.Address(), ServerFeatureType: &ft}}
			d := model.DatagramType{Header: w.hdr(nm, nmL, model.CmdClassifierTypeCall, true), Payload: model.PayloadType{Cmd: []model.CmdType{{NodeManagementSubscriptionRequestCall: req}}}}
			return func() { vhDeliver(r, d) }
		case "inbound-bind":
			req := &model.NodeManagementBindingRequestCallType{BindingRequest: &model.BindingManagementRequestCallType{ClientAddress: vhAddr(dev, []uint{1}, 1), ServerAddress: w.F4.Address(), ServerFeatureType: &ft}}
			d := model.DatagramType{Header: w.hdr(nm, nmL, model.CmdClassifierTypeCall, true), Payload: model.PayloadType{Cmd: []model.CmdType{{NodeManagementBindingRequestCall: req}}}}
			return func() { vhDeliver(r, d) }
		case "inbound-discovery-read":
			d := model.DatagramType{Header: w.hdr(nm, nmL, model.CmdClassifierTypeRead, false), Payload: model.PayloadType{Cmd: []model.CmdType{{NodeManagementDetailedDiscoveryData: &model.NodeManagementDetailedDiscoveryDataType{}}}}}
			return func() { vhDeliver(r, d) }
		case "inbound-notify":
			d := model.DatagramType{Header: w.hdr(vhAddr("A", []uint{1}, 2), w.F3.Address(), model.CmdClassifierTypeNotify, false), Payload: model.PayloadType{Cmd: []model.CmdType{{LoadControlLimitListData: vhLimitList(3, true)}}}}
			return func() { vhDeliver(r, d) }
		case "inbound-entity-removed":
			ei := vhEntInfo("A", []uint{1})
			st := model.NetworkManagementStateChangeTypeRemoved
			ei.Description.LastStateChange = &st
			dd := &model.NodeManagementDetailedDiscoveryDataType{EntityInformation: []model.NodeManagementDetailedDiscoveryEntityInformationType{ei}}
			cmd := model.CmdType{Filter: []model.FilterType{*model.NewFilterTypePartial()}, NodeManagementDetailedDiscoveryData: dd}
			d := model.DatagramType{Header: w.hdr(vhAddr("A", []uint{0}, 0), nmL, model.CmdClassifierTypeNotify, false), Payload: model.PayloadType{Cmd: []model.CmdType{cmd}}}
			return func() { vhDeliver(r, d) }
		case "local-set-data":
			return func() { w.F1.SetData(fn, vhLimitList(uint(20+slot), true)) }
		case "local-update-data":
			return func() {
				_ = w.F1.UpdateData(fn, vhLimitList(10, slot == 0), model.NewFilterTypePartial(), nil)
			}
		case "use-case-change":
			return func() {
				w.E1.AddUseCaseSupport(model.UseCaseActorTypeCEM, model.UseCaseNameTypeLimitationOfPowerConsumption, model.SpecificationVersionType("1.0.0"), "", true, []model.UseCaseScenarioSupportType{1})
				w.E1.SetUseCaseAvailability(model.UseCaseActorTypeCEM, model.UseCaseNameTypeLimitationOfPowerConsumption, slot == 0)
			}
		case "add-entity":
			return func() { w.L.AddEntity(extra) }
		case "remove-entity":
			return func() { w.L.RemoveEntity(w.E2) }
		case "request-remote-data":
			rf := w.rA.FeatureByAddress(vhAddr("A", []uint{1}, 2))
			return func() { _, _ = w.F3.RequestRemoteData(fn, nil, nil, rf) }
		case "approval-verdict":
			return func() { w.F1.ApproveOrDenyWrite(first, model.ErrorType{ErrorNumber: model.ErrorNumberType(slot)}) }
		case "remove-connection":
			ski := "ski" + dev
			return func() { w.L.RemoveRemoteDeviceConnection(ski) }
		case "event-subscribe-unsubscribe":
			h := &vhC17Handler{}
			return func() {
				_ = Events.Subscribe(h)
				Events.Publish(api.EventPayload{EventType: api.EventTypeDataChange})
				_ = Events.Unsubscribe(h)
			}
		case "subscribe-to-remote":
			rf := w.rA.FeatureByAddress(vhAddr("A", []uint{1}, 2))
			return func() { _, _ = w.F3.SubscribeToRemote(rf.Address()) }
		case "add-response-callback":
			cb := func(api.ResponseMessage) {}
			return func() { _ = w.F3.AddResponseCallback(ref0+model.MsgCounterType(100+slot), cb) }
		case "inbound-discovery-update-of-an-entity":
			// the peer announces its entity [1] once more (partial "added" notice): features are rebuilt
			ei := vhEntInfo("A", []uint{1})
			st := model.NetworkManagementStateChangeTypeAdded
			ei.Description.LastStateChange = &st
			dd := &model.NodeManagementDetailedDiscoveryDataType{
				DeviceInformation: &model.NodeManagementDetailedDiscoveryDeviceInformationType{Description: &model.NetworkManagementDeviceDescriptionDataType{DeviceAddress: &model.DeviceAddressType{Device: util.Ptr(model.AddressDeviceType("A"))}}},
				EntityInformation: []model.NodeManagementDetailedDiscoveryEntityInformationType{ei},
				FeatureInformation: []model.NodeManagementDetailedDiscoveryFeatureInformationType{
					vhFeatInfo("A", []uint{1}, 1, model.FeatureTypeTypeLoadControl, model.RoleTypeClient),
					vhFeatInfo("A", []uint{1}, 2, model.FeatureTypeTypeLoadControl, model.RoleTypeServer, model.FunctionTypeLoadControlLimitListData)}}
			cmd := model.CmdType{Function: util.Ptr(model.FunctionTypeNodeManagementDetailedDiscoveryData), Filter: []model.FilterType{*model.NewFilterTypePartial()}, NodeManagementDetailedDiscoveryData: dd}
			d := model.DatagramType{Header: w.hdr(vhAddr("A", []uint{0}, 0), nmL, model.CmdClassifierTypeNotify, false), Payload: model.PayloadType{Cmd: []model.CmdType{cmd}}}
			return func() { vhDeliver(r, d) }
		case "remote-tree-queries":
			ent := w.rA.Entity(NewAddressEntityType([]uint{1}))
			feats := ent.Features() // a list handed out earlier, walked while updates may arrive
			return func() {
				n := 0
				for _, f := range feats {
					if f != nil && f.Role() == model.RoleTypeServer {
						n++
					}
				}
				_ = w.rA.UseCases()
				_ = w.rA.FeatureByEntityTypeAndRole(ent, model.FeatureTypeTypeLoadControl, model.RoleTypeServer)
				_ = ent.Features()
				_ = w.rA.Entities()
			}
		case "inbound-unbind-with-stale-device":
			// a binding delete call naming the bound client feature with an outdated device part
			req := &model.NodeManagementBindingDeleteCallType{BindingDelete: &model.BindingManagementDeleteCallType{ClientAddress: vhAddr("A-old", []uint{1}, 1), ServerAddress: w.F1.Address()}}
			d := model.DatagramType{Header: w.hdr(nm, nmL, model.CmdClassifierTypeCall, true), Payload: model.PayloadType{Cmd: []model.CmdType{{NodeManagementBindingDeleteCall: req}}}}
			return func() { vhDeliver(r, d) }
		case "get-or-add-feature":
			return func() { w.E1.GetOrAddFeature(model.FeatureTypeTypeSetpoint, model.RoleTypeServer) }
		case "add-function-type":
			return func() { w.F2.AddFunctionType(model.FunctionTypeMeasurementDescriptionListData, true, false) }
		case "use-case-change-other-entity":
			return func() {
				w.E2.AddUseCaseSupport(model.UseCaseActorTypeCEM, model.UseCaseNameTypeLimitationOfPowerProduction, model.SpecificationVersionType("1.0.0"), "", true, []model.UseCaseScenarioSupportType{1})
				w.E2.RemoveUseCaseSupport(model.UseCaseActorTypeCEM, model.UseCaseNameTypeLimitationOfPowerProduction)
			}
		case "inbound-reply":
			h := w.hdr(vhAddr("A", []uint{1}, 2), w.F3.Address(), model.CmdClassifierTypeReply, false)
			h.MsgCounterReference = util.Ptr(ref0) // answers the outstanding request
			d := model.DatagramType{Header: h, Payload: model.PayloadType{Cmd: []model.CmdType{{LoadControlLimitListData: vhLimitList(4, slot == 0)}}}}
			return func() { vhDeliver(r, d) }
		case "bind-to-remote":
			rf := w.rA.FeatureByAddress(vhAddr("A", []uint{1}, 2))
			return func() { _, _ = w.F3.BindToRemote(rf.Address()) }
		case "read-local-and-remote-data":
			rf := w.rA.FeatureByAddress(vhAddr("A", []uint{1}, 2))
			return func() {
				_ = w.F1.DataCopy(fn)
				_ = rf.DataCopy(fn)
				_ = w.F1.Operations()
				_ = w.L.Information()
			}
		case "inbound-subscription-list-read":
			d := model.DatagramType{Header: w.hdr(nm, nmL, model.CmdClassifierTypeRead, false), Payload: model.PayloadType{Cmd: []model.CmdType{{NodeManagementSubscriptionData: &model.NodeManagementSubscriptionDataType{}}}}}
			return func() { vhDeliver(r, d) }
		case "client-side-bookkeeping-queries":
			rf := w.rA.FeatureByAddress(vhAddr("A", []uint{1}, 2))
			return func() {
				_ = w.F3.HasSubscriptionToRemote(rf.Address())
				_ = w.F3.HasBindingToRemote(rf.Address())
				_ = w.L.RemoteDevices()
				_ = w.L.Entities()
			}
		}
		panic(fmt.Sprintf("operation %d", op))
	}
	op0, op1 := mk(pc[0], 0), mk(pc[1], 1)
	done := [2]bool{}
	if race {
		verifrt.RaceDetect(true)
	}
	verifrt.Go(func() { op0(); done[0] = true })
	verifrt.Go(func() { op1(); done[1] = true })
	if verifrt.Param("unlock", 0) == 1 {
		verifrt.PreemptAtUnlock(true)
	}
	// a thread that holds no lock cannot be part of a wait cycle at that point: lock operations are
	// pre-emption points only while the running thread holds at least one lock
	verifrt.PreemptOnlyHolding(verifrt.Param("everywhere", 0) == 0)
	// event handler goroutines started by the operations run in spawn order once both operations are
	// done or blocked (they are still pre-emption targets at every scheduling point)
	verifrt.SpawnedFIFO(true)
	verifrt.PreemptOn()
	if verifrt.Param("timers", 0) == 1 {
		verifrt.FireTimers() // armed approval timers fire at every scheduling point and in every order as well
	} else {
		verifrt.WaitIdle()
	}
	verifrt.PreemptOff()
	verifrt.PreemptAtUnlock(false)
	verifrt.PreemptOnlyHolding(false)
	verifrt.FireTimers()
	verifrt.SpawnedFIFO(false) // whatever is still armed fires now (whole timer functions, every order)
	verifrt.RunReadyFIFO()
	verifrt.RaceDetect(false)
	verifrt.Reach("both-started")
	verifrt.Assert("both-operations-complete", done[0] && done[1])
	verifrt.Assert("no-thread-left-blocked", verifrt.BlockedThreads() == 0)
	// and the stack still answers afterwards
	m0 := len(w.wB.msgs)
	vhDeliver(w.rB, model.DatagramType{Header: w.hdr(vhAddr("B", []uint{0}, 0), nmL, model.CmdClassifierTypeRead, false), Payload: model.PayloadType{Cmd: []model.CmdType{{NodeManagementDetailedDiscoveryData: &model.NodeManagementDetailedDiscoveryDataType{}}}}})
	if pc[0] != 14 && pc[1] != 14 {
		verifrt.Assert("discovery-read-still-answered-afterwards", vhCount(w.wB, m0).replies == 1)
	}
	_ = util.Ptr[int]
}
