package spine

import (
	"fmt"
	"time"

	"github.com/enbility/spine-go/api"
	"github.com/enbility/spine-go/model"
	"github.com/enbility/spine-go/util"
	"github.com/enbility/spine-go/verifrt"
)

func init() {
	verifrt.Register("VH_c12_approval", VH_c12_approval)
	verifrt.Register("VH_c12_window", VH_c12_window)
}

type vhC12Case struct{ k, n, mode, preset int }

// the order harness: whole verdict deliveries and timer firings in every order
func vhC12Cases(thorough bool) []vhC12Case {
	var cs []vhC12Case
	for _, kn := range [][2]int{{1, 1}, {2, 1}, {3, 1}, {1, 2}} {
		cs = append(cs, vhC12Case{kn[0], kn[1], 0, -1}, vhC12Case{kn[0], kn[1], 1, -1})
	}
	for preset := 0; preset < 9; preset++ {
		cs = append(cs, vhC12Case{2, 2, 0, preset})
	}
	if thorough {
		for preset := 0; preset < 9; preset++ {
			cs = append(cs, vhC12Case{3, 2, 0, preset}, vhC12Case{2, 2, 1, preset})
		}
	}
	return cs
}

func VH_c12_approval() {
	cases := vhC12Cases(verifrt.Param("thorough", 0) == 1)
	vhC12(cases[verifrt.ShardChoice("case", len(cases))], false)
}

// the window harness: two racing threads, pre-emption at the lock acquisitions inside
// ApproveOrDenyWrite and the timeout function
func VH_c12_window() {
	cases := []vhC12Case{{1, 1, 1, -1}, {2, 1, 1, -1}}
	vhC12(cases[verifrt.ShardChoice("case", len(cases))], true)
}

func vhTwoLimits() *model.LoadControlLimitListDataType {
	mk := func(id uint) model.LoadControlLimitDataType {
		return model.LoadControlLimitDataType{LimitId: util.Ptr(model.LoadControlLimitIdType(id)), IsLimitChangeable: util.Ptr(true), IsLimitActive: util.Ptr(false)}
	}
	return &model.LoadControlLimitListDataType{LoadControlLimitData: []model.LoadControlLimitDataType{mk(10), mk(11)}}
}

// C12: k approval callbacks, n writes pending together, every verdict assignment, every order of
// verdict deliveries and timeouts (and, with a pre-emption bound, interleavings inside ApproveOrDenyWrite).
func vhC12(c vhC12Case, window bool) {
	k, n, mode := c.k, c.n, c.mode
	tag := []string{"verdicts-then-timeouts", "verdicts-race-timeouts"}[mode]
	if window {
		tag = "window"
	}
	verifrt.Scenario(fmt.Sprintf("%d-callbacks/%d-writes/%s", k, n, tag))
	w := vhNewWorld(vhWorldOpts{onlyA: true, noEvents: true})
	bm := w.L.BindingManager().(*BindingManager)
	cliA := w.rA.FeatureByAddress(vhAddr("A", []uint{1}, 1))
	vhSetBindingNum(bm, 1)
	bm.bindingEntries = []*api.BindingEntry{{Id: 1, ServerFeature: w.F1, ClientFeature: cliA}}
	w.F1.SetData(model.FunctionTypeLoadControlLimitListData, vhTwoLimits())
	w.F1.SetWriteApprovalTimeout(time.Second)

	seen := make([][]*api.Message, k)
	for j := 0; j < k; j++ {
		j := j
		_ = w.F1.AddWriteApprovalCallback(func(m *api.Message) { seen[j] = append(seen[j], m) })
	}
	ctr := make([]uint64, n)
	ack := make([]bool, n)
	for i := 0; i < n; i++ {
		ctr[i] = verifrt.U64(fmt.Sprintf("msgCounter[%d]", i))
		ack[i] = verifrt.Concrete(verifrt.Bool(fmt.Sprintf("ack[%d]", i)))
	}
	if n == 2 {
		verifrt.Assume(ctr[0] != ctr[1])
	}
	w0 := len(w.wA.msgs)
	for i := 0; i < n; i++ {
		item := model.LoadControlLimitDataType{LimitId: util.Ptr(model.LoadControlLimitIdType(10 + i)), IsLimitActive: util.Ptr(true)}
		cmd := model.CmdType{Function: util.Ptr(model.FunctionTypeLoadControlLimitListData), Filter: []model.FilterType{*model.NewFilterTypePartial()},
			LoadControlLimitListData: &model.LoadControlLimitListDataType{LoadControlLimitData: []model.LoadControlLimitDataType{item}}}
		h := model.HeaderType{AddressSource: cliA.Address(), AddressDestination: w.F1.Address(), MsgCounter: util.Ptr(model.MsgCounterType(ctr[i])), CmdClassifier: util.Ptr(model.CmdClassifierTypeWrite)}
		if ack[i] {
			h.AckRequest = util.Ptr(true)
		}
		vhDeliver(w.rA, model.DatagramType{Header: h, Payload: model.PayloadType{Cmd: []model.CmdType{cmd}}})
	}
	verifrt.RunReadyFIFO() // the callbacks run on their own goroutines; they only record, their order is not explored
	verifrt.Reach("writes-pending")
	sawAll := true
	for j := 0; j < k; j++ {
		sawAll = sawAll && len(seen[j]) == n
	}
	verifrt.Assert("every-callback-sees-every-write-exactly-once", sawAll)
	if !sawAll {
		return
	}
	msgFor := func(j, i int) *api.Message {
		for _, m := range seen[j] {
			if verifrt.Concrete(uint64(*m.RequestHeader.MsgCounter) == ctr[i]) {
				return m
			}
		}
		return nil
	}
	// has an error result for write i been written already?
	errWritten := func(i int) bool {
		for _, b := range w.wA.msgs[w0:] {
			d := vhDecode(b)
			if d.Header.CmdClassifier != nil && *d.Header.CmdClassifier == model.CmdClassifierTypeResult && d.Header.MsgCounterReference != nil &&
				verifrt.Concrete(uint64(*d.Header.MsgCounterReference) == ctr[i]) {
				if c := d.Payload.Cmd; len(c) > 0 && c[0].ResultData != nil && c[0].ResultData.ErrorNumber != nil && *c[0].ResultData.ErrorNumber != 0 {
					return true
				}
			}
		}
		return false
	}
	late := make([]bool, n) // some verdict for write i was handed in after the rejection had gone out
	// verdicts: 0 approve, 1 deny, 2 silent
	verdict := make([][]int, k)
	for j := 0; j < k; j++ {
		verdict[j] = make([]int, n)
		for i := 0; i < n; i++ {
			if c.preset >= 0 && j == 0 {
				verdict[j][i] = []int{c.preset / 3, c.preset % 3}[i] // heavy cases are split by the first callback's verdicts
			} else {
				verdict[j][i] = verifrt.Choice(fmt.Sprintf("verdict[%d][%d]", j, i), 3)
			}
			if verdict[j][i] == 2 {
				continue
			}
			m := msgFor(j, i)
			e := model.ErrorType{ErrorNumber: 0}
			if verdict[j][i] == 1 {
				e = model.ErrorType{ErrorNumber: 7}
			}
			wi := i
			verifrt.Go(func() {
				if errWritten(wi) {
					late[wi] = true
				}
				w.F1.ApproveOrDenyWrite(m, e)
			})
		}
	}
	if window {
		verifrt.PreemptOn()
	}
	if mode == 0 {
		verifrt.WaitIdle()
	}
	verifrt.FireTimers()
	verifrt.PreemptOff()
	verifrt.Reach("quiescent")
	verifrt.Assert("no-thread-left-blocked", verifrt.BlockedThreads() == 0)

	out := vhCount(w.wA, w0)
	data := w.F1.DataCopy(model.FunctionTypeLoadControlLimitListData).(*model.LoadControlLimitListDataType)
	for i := 0; i < n; i++ {
		okN, errN := 0, 0
		for _, d := range out.dgs {
			if d.Header.CmdClassifier == nil || *d.Header.CmdClassifier != model.CmdClassifierTypeResult || d.Header.MsgCounterReference == nil ||
				!verifrt.Concrete(uint64(*d.Header.MsgCounterReference) == ctr[i]) {
				continue
			}
			c := d.Payload.Cmd
			if len(c) > 0 && c[0].ResultData != nil && c[0].ResultData.ErrorNumber != nil && *c[0].ResultData.ErrorNumber == 0 {
				okN++
			} else {
				errN++
			}
		}
		visible := false
		for _, it := range data.LoadControlLimitData {
			if it.LimitId != nil && uint(*it.LimitId) == uint(10+i) && it.IsLimitActive != nil && *it.IsLimitActive {
				visible = true
			}
		}
		allApprove, anyDeny := true, false
		for j := 0; j < k; j++ {
			allApprove = allApprove && verdict[j][i] == 0
			anyDeny = anyDeny || verdict[j][i] == 1
		}
		wantOK := 0
		if ack[i] {
			wantOK = 1
		}
		applied := visible && errN == 0 && okN == wantOK
		rejected := !visible && errN == 1 && okN == 0
		verifrt.Assert("exactly-one-outcome-per-write", applied != rejected)
		verifrt.Assert("applied-only-if-every-callback-approved", !visible || allApprove)
		verifrt.Assert("a-denial-rejects-the-write", !anyDeny || rejected)
		verifrt.Assert("no-unanimous-approval-ends-in-rejection", allApprove || rejected)
		if late[i] {
			// the peer has been told already that the write was rejected: a verdict handed in afterwards changes nothing
			// (a second error result caused by a verdict that was already in flight is the exactly-one-outcome clause)
			verifrt.Assert("a-verdict-after-the-rejection-went-out-is-not-applied", !visible && okN == 0)
		}
		if mode == 0 {
			// no timeout could fire before the verdicts were in
			verifrt.Assert("unanimous-timely-approval-is-applied", !allApprove || applied)
		}
		verifrt.Observe(fmt.Sprintf("visible[%d]", i), visible)
		verifrt.Observe(fmt.Sprintf("err[%d]", i), errN)
		verifrt.Observe(fmt.Sprintf("ok[%d]", i), okN)
	}
}
