package spine

import (
	"fmt"

	"github.com/enbility/spine-go/api"
	"github.com/enbility/spine-go/model"
	"github.com/enbility/spine-go/util"
	"github.com/enbility/spine-go/verifrt"
)

func init() {
	verifrt.Register("VH_c04_write", VH_c04_write)
}

var vhC04WriteShapes = []string{"full", "partial-ids", "partial-noid", "partial-selector", "delete-selector", "delete-elements", "delete-partial"}

func vhOptBool(c int) *bool {
	switch c {
	case 1:
		return util.Ptr(true)
	case 2:
		return util.Ptr(false)
	}
	return nil
}

// C04 (spine level): one remote write datagram of any shape from a bound peer, through
// HandleSpineMesssage -> ProcessCmd -> processWrite -> executeWrite -> FunctionData.UpdateData, against a
// stored limit list that mixes changeable, unchangeable and flag-less elements. Observed: the stored
// data afterwards, the result sent to the writer, the notifications to both subscribed peers.
func VH_c04_write() {
	cs := verifrt.ShardChoice("case", len(vhC04WriteShapes)*2)
	shape, ack := vhC04WriteShapes[cs/2], cs%2 == 1
	w := vhNewWorld(vhWorldOpts{})
	fn := model.FunctionTypeLoadControlLimitListData
	bm := w.L.BindingManager().(*BindingManager)
	sm := w.L.SubscriptionManager().(*SubscriptionManager)
	cA := w.rA.FeatureByAddress(vhAddr("A", []uint{1}, 1))
	cB := w.rB.FeatureByAddress(vhAddr("B", []uint{1}, 1))
	bm.bindingEntries = append(bm.bindingEntries, &api.BindingEntry{Id: 1, ServerFeature: w.F1, ClientFeature: cA})
	vhSetBindingNum(bm, 1)
	sm.subscriptionEntries = append(sm.subscriptionEntries,
		&api.SubscriptionEntry{Id: 1, ServerFeature: w.F1, ClientFeature: cA},
		&api.SubscriptionEntry{Id: 2, ServerFeature: w.F1, ClientFeature: cB})
	vhSetSubscriptionNum(sm, 2)

	// ---- stored list: two elements, identifiers 1 and 2, flag absent / true / false, one further field
	const n = 2
	var flag [n]int
	var act [n]bool
	stored := &model.LoadControlLimitListDataType{}
	for i := 0; i < n; i++ {
		flag[i] = verifrt.Choice(fmt.Sprintf("stored[%d].flag", i), 3)
		act[i] = verifrt.Bool(fmt.Sprintf("stored[%d].active", i))
		stored.LoadControlLimitData = append(stored.LoadControlLimitData, model.LoadControlLimitDataType{
			LimitId: util.Ptr(model.LoadControlLimitIdType(i + 1)), IsLimitChangeable: vhOptBool(flag[i]), IsLimitActive: util.Ptr(act[i])})
	}
	w.F1.SetData(fn, stored)

	// ---- the write
	idU := verifrt.Uint("w.id")
	verifrt.Assume(verifrt.All(idU >= 1, idU <= 3))
	idC := uint(verifrt.ConcreteInt(int(idU), 1, 3))
	actU := verifrt.Bool("w.active")
	flagU := verifrt.Choice("w.flag", 3)
	item := model.LoadControlLimitDataType{IsLimitActive: util.Ptr(actU), IsLimitChangeable: vhOptBool(flagU)}
	selAll := true
	var selID uint
	sel := &model.LoadControlLimitListDataSelectorsType{}
	if shape == "partial-selector" || shape == "delete-selector" || shape == "delete-partial" {
		if verifrt.Choice("sel.present", 2) == 1 {
			s := verifrt.Uint("sel.id")
			verifrt.Assume(verifrt.All(s >= 1, s <= 3))
			selID = uint(verifrt.ConcreteInt(int(s), 1, 3))
			selAll = false
			sel.LimitId = util.Ptr(model.LoadControlLimitIdType(selID))
		}
	}
	cmd := model.CmdType{}
	withID := shape == "full" || shape == "partial-ids" || shape == "delete-partial"
	if withID {
		item.LimitId = util.Ptr(model.LoadControlLimitIdType(idC))
	}
	del := func() model.FilterType {
		return model.FilterType{CmdControl: &model.CmdControlType{Delete: &model.ElementTagType{}}}
	}
	switch shape {
	case "full":
	case "partial-ids", "partial-noid":
		cmd.Filter = []model.FilterType{*model.NewFilterTypePartial()}
	case "partial-selector":
		f := *model.NewFilterTypePartial()
		f.LoadControlLimitListDataSelectors = sel
		cmd.Filter = []model.FilterType{f}
	case "delete-selector":
		f := del()
		f.LoadControlLimitListDataSelectors = sel
		cmd.Filter = []model.FilterType{f}
	case "delete-elements":
		f := del()
		f.LoadControlLimitDataElements = &model.LoadControlLimitDataElementsType{IsLimitActive: &model.ElementTagType{}}
		cmd.Filter = []model.FilterType{f}
	case "delete-partial":
		f := del()
		f.LoadControlLimitListDataSelectors = sel
		cmd.Filter = []model.FilterType{f, *model.NewFilterTypePartial()}
	}
	cmd.LoadControlLimitListData = &model.LoadControlLimitListDataType{}
	if shape != "delete-selector" && shape != "delete-elements" {
		cmd.LoadControlLimitListData.LoadControlLimitData = []model.LoadControlLimitDataType{item}
	}

	// which stored elements does the write address, which does it delete
	var addressed, deleted, written, both [n]bool
	nAddr, nUnchg, nAddrUnchg := 0, 0, 0
	for i := 0; i < n; i++ {
		id := uint(i + 1)
		m := selAll || selID == id
		switch shape {
		case "full":
			addressed[i], written[i], deleted[i] = true, idC == id, idC != id
		case "partial-ids":
			addressed[i], written[i] = idC == id, idC == id
		case "partial-noid":
			addressed[i], written[i] = true, true
		case "delete-elements":
			addressed[i] = true
		case "partial-selector":
			addressed[i], written[i] = m, m
		case "delete-selector":
			addressed[i], deleted[i] = m, m
		case "delete-partial":
			addressed[i], written[i], deleted[i] = m || idC == id, idC == id, m && idC != id
			both[i] = m && idC == id // deleted and written again: covered by "did-not-drop-a-written-item"
		}
		if addressed[i] {
			nAddr++
		}
		if flag[i] != 1 {
			nUnchg++
			if addressed[i] {
				nAddrUnchg++
			}
		}
	}
	sub := "all-addressed-changeable"
	switch {
	case nAddrUnchg > 0:
		sub = "addresses-unchangeable"
	case nUnchg > 0:
		sub = "unchangeable-unaddressed"
	}
	if flagU != 0 && shape != "delete-selector" && shape != "delete-elements" {
		sub += "/written-item-carries-the-flag"
	}
	if withID && idC == 3 {
		sub += "/unknown-identifier"
	}
	verifrt.Scenario(shape + "/" + sub)

	a0, b0, ev0 := len(w.wA.msgs), len(w.wB.msgs), len(w.events)
	h := w.hdr(vhAddr("A", []uint{1}, 1), w.F1.Address(), model.CmdClassifierTypeWrite, ack)
	vhDeliver(w.rA, model.DatagramType{Header: h, Payload: model.PayloadType{Cmd: []model.CmdType{cmd}}})
	verifrt.Reach("write-delivered")
	outA, outB := vhCount(w.wA, a0), vhCount(w.wB, b0)

	var post []model.LoadControlLimitDataType
	if p, ok := w.F1.DataCopy(fn).(*model.LoadControlLimitListDataType); ok && p != nil {
		post = p.LoadControlLimitData
	}
	find := func(id uint) *model.LoadControlLimitDataType {
		var hit *model.LoadControlLimitDataType
		for k := range post {
			if post[k].LimitId != nil && uint(*post[k].LimitId) == id {
				if hit != nil {
					verifrt.Assert("at-most-one-element-per-identifier", false)
				}
				hit = &post[k]
			}
		}
		return hit
	}
	flagOf := func(it *model.LoadControlLimitDataType) int {
		switch {
		case it.IsLimitChangeable == nil:
			return 0
		case verifrt.Concrete(*it.IsLimitChangeable):
			return 1
		}
		return 2
	}
	sameAsStored := func(i int) bool {
		it := find(uint(i + 1))
		return it != nil && flagOf(it) == flag[i] && it.IsLimitActive != nil && verifrt.Concrete(*it.IsLimitActive == act[i]) &&
			it.Value == nil && it.TimePeriod == nil
	}

	untouched, flags, unaddr, all := true, true, true, len(post) == n
	for i := 0; i < n; i++ {
		same := sameAsStored(i)
		all = all && same
		if flag[i] != 1 && !same {
			untouched = false
		}
		if it := find(uint(i + 1)); it != nil && flagOf(it) != flag[i] {
			flags = false
		}
		if !addressed[i] && !same {
			unaddr = false
		}
	}
	verifrt.Assert("unchangeable-element-untouched", untouched)
	verifrt.Assert("flags-unchanged", flags)
	verifrt.Assert("unaddressed-element-unchanged", unaddr)

	// ---- the answer
	nRes := outA.errResults + outA.okResults
	verifrt.Assert("writer-gets-at-most-one-result-and-nothing-else", nRes <= 1 && outA.replies == 0 && outA.reads+outA.calls+outA.writes+outA.other == 0)
	verifrt.Assert("other-peer-gets-nothing-but-notifications", len(w.wB.msgs)-b0 == outB.notifies)
	if ack {
		verifrt.Assert("acknowledged-write-gets-exactly-one-result", nRes == 1)
	} else {
		verifrt.Assert("unacknowledged-write-gets-no-success-result", outA.okResults == 0)
	}
	if outA.errResults > 0 {
		verifrt.Reach("rejected")
		verifrt.Assert("rejected-write-leaves-data-unchanged", all)
		verifrt.Assert("rejected-write-notifies-nobody", outA.notifies == 0 && outB.notifies == 0)
		verifrt.Assert("rejected-write-publishes-no-data-change", w.dataChangeEvents(ev0) == 0)
	} else {
		verifrt.Reach("accepted")
		applied, appliedAll := true, true
		for i := 0; i < n; i++ {
			if !addressed[i] {
				continue
			}
			if (shape == "partial-selector" && nAddr > 1) || both[i] {
				continue // a selector matching several elements: which one is written is left open
			}
			it := find(uint(i + 1))
			done := true
			switch {
			case deleted[i]:
				done = it == nil
			case it == nil:
				done = false
			case written[i]:
				done = it.IsLimitActive != nil && verifrt.Concrete(*it.IsLimitActive == actU)
			case shape == "delete-elements":
				done = it.IsLimitActive == nil
			}
			// success promises every change, also one aimed at a protected element (kept untouched by
			// the first assertion: such a write cannot be answered with success)
			appliedAll = appliedAll && done
			if flag[i] == 1 {
				applied = applied && done
			}
		}
		verifrt.Assert("accepted-write-applied-to-every-addressed-changeable-element", applied)
		if ack {
			verifrt.Assert("write-answered-with-success-applied-all-of-its-changes", appliedAll)
		}
		if withID {
			verifrt.Assert("accepted-write-did-not-drop-a-written-item", find(idC) != nil)
		}
		if !all {
			verifrt.Assert("accepted-write-that-changes-data-notifies-each-subscriber-once", outA.notifies == 1 && outB.notifies == 1)
			verifrt.Assert("accepted-write-that-changes-data-publishes-one-data-change", w.dataChangeEvents(ev0) == 1)
		}
		verifrt.Assert("at-most-one-notification-per-subscriber", outA.notifies <= 1 && outB.notifies <= 1)
	}
	verifrt.Observe("rejected", outA.errResults > 0)
	verifrt.Observe("unchanged", all)
}
