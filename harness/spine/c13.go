package spine

import (
	"fmt"

	"github.com/enbility/spine-go/model"
	"github.com/enbility/spine-go/util"
	"github.com/enbility/spine-go/verifrt"
)

func init() {
	verifrt.Register("VH_c13_sender", VH_c13_sender)
}

func vhReadCmd(i uint) model.CmdType {
	return model.CmdType{LoadControlLimitListData: &model.LoadControlLimitListDataType{LoadControlLimitData: []model.LoadControlLimitDataType{{LimitId: util.Ptr(model.LoadControlLimitIdType(i))}}}}
}

func vhLastCounter(w *vhWriter) uint64 {
	d := vhDecode(w.msgs[len(w.msgs)-1])
	return uint64(*d.Header.MsgCounter)
}

// C13: message counters and request de-duplication of one Sender.
func VH_c13_sender() {
	scen := []string{"request-history", "eviction", "notify-retrieval", "notify-retrieval-interleaved", "counters-increase", "eviction-after-response", "eviction-with-notifications"}
	cs := verifrt.ShardChoice("case", 10+6)
	si, first := 0, cs
	if cs >= 10 {
		si, first = cs-9, -1
	}
	verifrt.Scenario(scen[si])
	wr := &vhWriter{}
	s := NewSender(wr).(*Sender)
	src := vhAddr("L", []uint{1}, 3)
	dsts := []*model.FeatureAddressType{vhAddr("A", []uint{1}, 2), vhAddr("A", []uint{1}, 4)}

	switch scen[si] {
	case "request-history":
		// three operations (request of one of 2x3 (destination, command) pairs, or a response referencing the
		// k-th earlier request or an unknown counter), then one more request: withheld iff an identical one is unanswered
		mn := verifrt.U64("msgNum")
		verifrt.Assume(mn < 1<<62)
		vhSetMsgNum(s, mn)
		type pend struct {
			d, c int
			ctr  uint64
			open bool
		}
		var reqs []pend
		step := func(tag string, o int) {
			if o < 6 {
				d, c := o/3, o%3
				before := len(wr.msgs)
				got, err := s.Request(model.CmdClassifierTypeRead, src, dsts[d], false, []model.CmdType{vhReadCmd(uint(c))})
				verifrt.Assert("request-succeeds", err == nil && got != nil)
				var dup *pend
				for i := range reqs {
					if reqs[i].open && reqs[i].d == d && reqs[i].c == c {
						dup = &reqs[i]
					}
				}
				if dup != nil {
					verifrt.Reach("withheld")
					verifrt.Assert("identical-unanswered-request-is-withheld", len(wr.msgs) == before)
					verifrt.Assert("withheld-request-returns-the-earlier-counter", verifrt.Concrete(uint64(*got) == dup.ctr))
				} else {
					verifrt.Reach("sent")
					verifrt.Assert("a-different-or-answered-request-is-sent", len(wr.msgs) == before+1)
					if len(wr.msgs) == before+1 {
						ctr := vhLastCounter(wr)
						verifrt.Assert("request-returns-the-counter-it-sent", verifrt.Concrete(uint64(*got) == ctr))
						fresh := true
						for _, r := range reqs {
							fresh = fresh && verifrt.Concrete(ctr > r.ctr)
						}
						verifrt.Assert("fresh-counter-larger-than-all-earlier-ones", fresh)
						reqs = append(reqs, pend{d, c, ctr, true})
					}
				}
				return
			}
			// response
			k := o - 6
			var ref model.MsgCounterType
			if k < len(reqs) {
				ref = model.MsgCounterType(reqs[k].ctr)
				reqs[k].open = false
			} else {
				ref = model.MsgCounterType(verifrt.U64(tag + ".unknownRef"))
				for _, r := range reqs {
					verifrt.Assume(uint64(ref) != r.ctr)
				}
			}
			s.ProcessResponseForMsgCounterReference(&ref)
		}
		step("op0", first)
		step("op1", verifrt.Choice("op1", 10))
		step("op2", verifrt.Choice("op2", 10))
		step("op3", verifrt.Choice("op3", 6))
		open := 0
		for _, r := range reqs {
			if r.open {
				open++
			}
		}
		verifrt.Assert("memory-of-unanswered-requests-is-exact", len(s.reqMsgCache) == open)

	case "eviction":
		mn := verifrt.U64("msgNum")
		verifrt.Assume(mn < 1<<62)
		vhSetMsgNum(s, mn)
		var ctrs []uint64
		for i := 0; i < 23; i++ {
			got, _ := s.Request(model.CmdClassifierTypeRead, src, dsts[0], false, []model.CmdType{vhReadCmd(uint(i))})
			ctrs = append(ctrs, uint64(*got))
			verifrt.Assert("memory-of-unanswered-requests-stays-bounded", len(s.reqMsgCache) <= 21)
		}
		verifrt.Reach("evicted")
		before := len(wr.msgs)
		_, _ = s.Request(model.CmdClassifierTypeRead, src, dsts[0], false, []model.CmdType{vhReadCmd(22)})
		verifrt.Assert("recent-unanswered-request-still-withheld", len(wr.msgs) == before)
		_, _ = s.Request(model.CmdClassifierTypeRead, src, dsts[0], false, []model.CmdType{vhReadCmd(0)})
		verifrt.Assert("forgotten-request-is-sent-again", len(wr.msgs) == before+1)

	case "eviction-after-response", "eviction-with-notifications":
		// the cached counters are not contiguous: an earlier (not the oldest) request was answered, or
		// notifications consumed counters in between
		mn := verifrt.U64("msgNum")
		verifrt.Assume(mn < 1<<62)
		vhSetMsgNum(s, mn)
		var ctrs []model.MsgCounterType
		for i := 0; i < 21; i++ {
			if scen[si] == "eviction-with-notifications" && i%5 == 1 {
				_, _ = s.Notify(src, dsts[0], vhReadCmd(uint(500+i)))
			}
			got, _ := s.Request(model.CmdClassifierTypeRead, src, dsts[0], false, []model.CmdType{vhReadCmd(uint(i))})
			ctrs = append(ctrs, *got)
		}
		if scen[si] == "eviction-after-response" {
			s.ProcessResponseForMsgCounterReference(&ctrs[verifrt.Choice("answered", 3)+1])
		}
		bounded := true
		for i := 21; i < 27; i++ {
			_, _ = s.Request(model.CmdClassifierTypeRead, src, dsts[0], false, []model.CmdType{vhReadCmd(uint(i))})
			bounded = bounded && len(s.reqMsgCache) <= 21
		}
		verifrt.Reach("evicted")
		verifrt.Assert("memory-of-unanswered-requests-stays-bounded", bounded)
		before := len(wr.msgs)
		_, _ = s.Request(model.CmdClassifierTypeRead, src, dsts[0], false, []model.CmdType{vhReadCmd(0)})
		verifrt.Assert("forgotten-request-is-sent-again", len(wr.msgs) == before+1)

	case "notify-retrieval", "notify-retrieval-interleaved":
		var ctrs []model.MsgCounterType
		n := 101
		if scen[si] == "notify-retrieval-interleaved" {
			n = 100
		}
		for i := 0; i < n; i++ {
			c, _ := s.Notify(src, dsts[0], vhReadCmd(uint(i)))
			ctrs = append(ctrs, *c)
		}
		if scen[si] == "notify-retrieval-interleaved" {
			_, err := s.DatagramForMsgCounter(ctrs[0]) // a retrieval between notifications
			verifrt.Assert("oldest-of-100-retrievable", err == nil)
			c, _ := s.Notify(src, dsts[0], vhReadCmd(1000))
			ctrs = append(ctrs, *c)
		}
		verifrt.Reach("notified")
		all := true
		for i := len(ctrs) - 100; i < len(ctrs); i++ {
			d, err := s.DatagramForMsgCounter(ctrs[i])
			ok := err == nil && d.Header.MsgCounter != nil && *d.Header.MsgCounter == ctrs[i]
			if !ok && all {
				verifrt.Observe("first-missing", i)
			}
			all = all && ok
		}
		verifrt.Assert("each-of-the-last-100-notifications-is-retrievable", all)

	case "counters-increase":
		mn := verifrt.U64("msgNum")
		verifrt.Assume(mn < 1<<62)
		vhSetMsgNum(s, mn)
		hdr := &model.HeaderType{AddressSource: dsts[0], AddressDestination: src, MsgCounter: util.Ptr(model.MsgCounterType(verifrt.U64("requestCounter")))}
		var last uint64
		haveLast := false
		for i := 0; i < 3; i++ {
			before := len(wr.msgs)
			switch verifrt.Choice(fmt.Sprintf("op%d", i), 9) {
			case 0:
				_, _ = s.Request(model.CmdClassifierTypeRead, src, dsts[0], false, []model.CmdType{vhReadCmd(uint(i))})
			case 1:
				_, _ = s.Notify(src, dsts[0], vhReadCmd(uint(i)))
			case 2:
				_, _ = s.Write(src, dsts[0], vhReadCmd(uint(i)))
			case 3:
				_ = s.Reply(hdr, src, vhReadCmd(uint(i)))
			case 4:
				_ = s.ResultSuccess(hdr, src)
			case 5:
				_ = s.ResultError(hdr, src, model.NewErrorTypeFromString("x"))
			case 6: // (a different server feature each time: an identical unanswered call would rightly be withheld)
				_, _ = s.Subscribe(src, vhAddr("A", []uint{1}, uint(10+i)), model.FeatureTypeTypeLoadControl)
			case 7:
				_, _ = s.Bind(src, vhAddr("A", []uint{1}, uint(10+i)), model.FeatureTypeTypeLoadControl)
			case 8:
				_, _ = s.Unsubscribe(src, vhAddr("A", []uint{1}, uint(10+i)))
			}
			verifrt.Assert("every-call-writes-one-datagram", len(wr.msgs) == before+1)
			if len(wr.msgs) == before+1 {
				c := vhLastCounter(wr)
				if haveLast {
					verifrt.Assert("counters-strictly-increase", verifrt.Concrete(c > last))
				}
				last, haveLast = c, true
			}
		}
		verifrt.Reach("sent-three")
	}
}

func init() {
	verifrt.Register("VH_c13_race", VH_c13_race)
}

// C13 (schedules): concurrent use of one Sender.
func VH_c13_race() {
	sc := verifrt.ShardChoice("case", 3)
	verifrt.Scenario([]string{"two-identical-requests", "request-and-notify", "request-racing-with-the-response-to-its-twin"}[sc])
	wr := &vhWriter{}
	s := NewSender(wr).(*Sender)
	vhSetMsgNum(s, 100)
	src, dst := vhAddr("L", []uint{1}, 3), vhAddr("A", []uint{1}, 2)
	counters := func() map[uint64]int {
		m := map[uint64]int{}
		for _, b := range wr.msgs {
			d := vhDecode(b)
			m[uint64(*d.Header.MsgCounter)]++
		}
		return m
	}
	var c1, c2 *model.MsgCounterType
	var e1, e2 error
	switch sc {
	case 0:
		verifrt.Go(func() { c1, e1 = s.Request(model.CmdClassifierTypeRead, src, dst, false, []model.CmdType{vhReadCmd(1)}) })
		verifrt.Go(func() { c2, e2 = s.Request(model.CmdClassifierTypeRead, src, dst, false, []model.CmdType{vhReadCmd(1)}) })
	case 1:
		verifrt.Go(func() { c1, e1 = s.Request(model.CmdClassifierTypeRead, src, dst, false, []model.CmdType{vhReadCmd(1)}) })
		verifrt.Go(func() { c2, e2 = s.Notify(src, dst, vhReadCmd(2)) })
	case 2:
		c0, _ := s.Request(model.CmdClassifierTypeRead, src, dst, false, []model.CmdType{vhReadCmd(1)})
		verifrt.Go(func() { c1, e1 = s.Request(model.CmdClassifierTypeRead, src, dst, false, []model.CmdType{vhReadCmd(1)}) })
		verifrt.Go(func() { s.ProcessResponseForMsgCounterReference(c0); c2 = c0 })
	}
	verifrt.PreemptOn()
	verifrt.WaitIdle()
	verifrt.PreemptOff()
	verifrt.Reach("both-done")
	verifrt.Assert("calls-succeed", e1 == nil && e2 == nil && c1 != nil && c2 != nil)
	cs := counters()
	uniq := true
	for _, n := range cs {
		if n != 1 {
			uniq = false
		}
	}
	verifrt.Assert("no-two-datagrams-carry-the-same-counter", uniq)
	verifrt.Assert("returned-counter-belongs-to-a-written-datagram", cs[uint64(*c1)] == 1 && cs[uint64(*c2)] == 1)
	switch sc {
	case 0:
		verifrt.Assert("identical-concurrent-requests-are-sent-once", len(wr.msgs) == 1 && *c1 == *c2)
	case 1:
		verifrt.Assert("different-calls-are-both-sent", len(wr.msgs) == 2 && *c1 != *c2)
	case 2:
		// withheld (earlier counter returned, response arrived afterwards) or sent anew after the response
		verifrt.Assert("request-withheld-or-sent-anew", (len(wr.msgs) == 1 && *c1 == *c2) || (len(wr.msgs) == 2 && *c1 != *c2))
		// afterwards an identical request is withheld exactly when the last one is still unanswered
		before := len(wr.msgs)
		c3, _ := s.Request(model.CmdClassifierTypeRead, src, dst, false, []model.CmdType{vhReadCmd(1)})
		if *c1 == *c2 {
			verifrt.Assert("answered-request-can-be-sent-again", len(wr.msgs) == before+1 && *c3 != *c1)
		} else {
			verifrt.Assert("unanswered-request-is-withheld", len(wr.msgs) == before && *c3 == *c1)
		}
	}
	verifrt.Assert("no-thread-left-blocked", verifrt.BlockedThreads() == 0)
}

func init() {
	verifrt.Register("VH_c13_response", VH_c13_response)
}

var vhC13Responses = []string{"accepted-reply", "reply-with-data-the-feature-does-not-hold", "partial-reply-for-an-empty-store", "success-result", "error-result",
	"result-without-error-number", "reply-from-an-unknown-feature", "reply-to-an-unknown-local-feature", "reply-referencing-another-counter", "notify-without-reference"}

// C13 (through the receive path): a request of a local client feature is withheld while unanswered; any
// datagram of the peer that references its counter - accepted or rejected by message handling - re-enables
// sending; one that references another counter, or none, does not.
func VH_c13_response() {
	k := verifrt.ShardChoice("case", len(vhC13Responses))
	verifrt.Scenario(vhC13Responses[k])
	w := vhNewWorld(vhWorldOpts{onlyA: true, noEvents: true})
	fn := model.FunctionTypeLoadControlLimitListData
	srvAddr := vhAddr("A", []uint{1}, 2)
	rf := w.rA.FeatureByAddress(srvAddr)
	m0 := len(w.wA.msgs)
	c1, err := w.F3.RequestRemoteData(fn, nil, nil, rf)
	verifrt.Assert("request-succeeds", err == nil && c1 != nil && len(w.wA.msgs) == m0+1)
	if err != nil || c1 == nil {
		return
	}
	c1b, _ := w.F3.RequestRemoteData(fn, nil, nil, rf)
	verifrt.Assert("identical-unanswered-request-is-withheld", len(w.wA.msgs) == m0+1 && c1b != nil && *c1b == *c1)

	ref := *c1
	src, dst := srvAddr, w.F3.Address()
	cl := model.CmdClassifierTypeReply
	ack := verifrt.Bool("ack")
	cmd := model.CmdType{LoadControlLimitListData: vhLimitList(uint(verifrt.ConcreteInt(int(verifrt.Choice("limitId", 3)), 0, 2)), true)}
	answered := true
	switch vhC13Responses[k] {
	case "accepted-reply":
	case "reply-with-data-the-feature-does-not-hold":
		cmd = model.CmdType{MeasurementListData: &model.MeasurementListDataType{}}
	case "partial-reply-for-an-empty-store":
		cmd.Filter = []model.FilterType{*model.NewFilterTypePartial()}
	case "success-result":
		cl = model.CmdClassifierTypeResult
		cmd = model.CmdType{ResultData: &model.ResultDataType{ErrorNumber: util.Ptr(model.ErrorNumberType(0))}}
	case "error-result":
		cl = model.CmdClassifierTypeResult
		cmd = model.CmdType{ResultData: &model.ResultDataType{ErrorNumber: util.Ptr(model.ErrorNumberType(1 + verifrt.Choice("errno", 9)))}}
	case "result-without-error-number":
		cl = model.CmdClassifierTypeResult
		cmd = model.CmdType{ResultData: &model.ResultDataType{}}
	case "reply-from-an-unknown-feature":
		src = vhAddr("A", []uint{1}, 9)
	case "reply-to-an-unknown-local-feature":
		dst = vhAddr("L", []uint{1}, 9)
	case "reply-referencing-another-counter":
		other := verifrt.U64("otherRef")
		verifrt.Assume(other != uint64(ref))
		ref = model.MsgCounterType(other)
		answered = false
	case "notify-without-reference":
		cl = model.CmdClassifierTypeNotify
		answered = false
	}
	h := w.hdr(src, dst, cl, ack)
	if vhC13Responses[k] != "notify-without-reference" {
		h.MsgCounterReference = &ref
	}
	vhDeliver(w.rA, model.DatagramType{Header: h, Payload: model.PayloadType{Cmd: []model.CmdType{cmd}}})
	verifrt.Reach("response-delivered")

	// the identical request once more
	m1 := len(w.wA.msgs)
	reads := func() int { return vhCount(w.wA, m1).reads }
	c2, err2 := w.F3.RequestRemoteData(fn, nil, nil, rf)
	verifrt.Assert("second-request-succeeds", err2 == nil && c2 != nil)
	if err2 != nil || c2 == nil {
		return
	}
	if answered {
		verifrt.Assert("a-response-referencing-the-counter-re-enables-sending", reads() == 1 && *c2 != *c1)
	} else {
		verifrt.Assert("still-unanswered-request-stays-withheld", reads() == 0 && *c2 == *c1)
	}
	verifrt.Observe("sent-again", reads())
}
