package spine

import (
	"github.com/enbility/spine-go/api"
	"github.com/enbility/spine-go/model"
	"github.com/enbility/spine-go/verifrt"
)

func init() {
	verifrt.Register("VH_c11_snapshot", VH_c11_snapshot)
}

type vhFDStore struct{ fd api.FunctionDataInterface }

func (s *vhFDStore) Replace(list any) { _, _ = s.fd.UpdateDataAny(false, true, list, nil, nil) }
func (s *vhFDStore) Copy() any        { return s.fd.DataCopyAny() }
func (s *vhFDStore) Update(remoteWrite, persist bool, upd any, fp, fd *model.FilterType) bool {
	_, err := s.fd.UpdateDataAny(remoteWrite, persist, upd, fp, fd)
	return err == nil
}

var vhAllFeatureTypes = []model.FeatureTypeType{model.FeatureTypeTypeGeneric, model.FeatureTypeTypeNodeManagement}

// vhFunctionData returns the real function-data store the stack registers for function fn.
func vhFunctionData(fn model.FunctionType) api.FunctionDataInterface {
	for _, ft := range vhAllFeatureTypes {
		for _, fd := range CreateFunctionData[api.FunctionDataInterface](ft) {
			if fd.FunctionType() == fn {
				return fd
			}
		}
	}
	return nil
}

// C11: DataCopy snapshots are stable; non-persisting / failing updates leave the store unchanged.
func VH_c11_snapshot() {
	model.VHC11(func(fn model.FunctionType) model.VHStore {
		fd := vhFunctionData(fn)
		if fd == nil {
			return nil
		}
		return &vhFDStore{fd}
	})
}
