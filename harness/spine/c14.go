package spine

import (
	"fmt"

	"github.com/enbility/spine-go/api"
	"github.com/enbility/spine-go/model"
	"github.com/enbility/spine-go/util"
	"github.com/enbility/spine-go/verifrt"
)

func init() {
	verifrt.Register("VH_c14_callbacks", VH_c14_callbacks)
}

type vhCall struct {
	cb   int
	ref  uint64
	feat api.FeatureLocalInterface
	rem  api.FeatureRemoteInterface
	data any
}

var vhCalls []vhCall

// distinct top-level functions: callback identity is the function pointer
func vhCbA(m api.ResponseMessage) {
	vhCalls = append(vhCalls, vhCall{0, uint64(m.MsgCounterReference), m.FeatureLocal, m.FeatureRemote, m.Data})
}
func vhCbB(m api.ResponseMessage) {
	vhCalls = append(vhCalls, vhCall{1, uint64(m.MsgCounterReference), m.FeatureLocal, m.FeatureRemote, m.Data})
}
func vhCbR(m api.ResponseMessage) {
	vhCalls = append(vhCalls, vhCall{2, uint64(m.MsgCounterReference), m.FeatureLocal, m.FeatureRemote, m.Data})
}

// C14: response callbacks (per counter) and result callbacks of local features.
func VH_c14_callbacks() {
	kinds := []string{"reply", "result", "reply-to-nodemanagement"}
	cs := verifrt.ShardChoice("case", len(kinds)*2*3)
	ki, arrivals, firstRef := cs/6, (cs/3)%2+1, cs%3
	verifrt.Scenario(kinds[ki])
	vhCalls = nil
	w := vhNewWorld(vhWorldOpts{noEvents: true})
	nm := w.L.FeatureByAddress(vhAddr("L", []uint{0}, 0))
	feats := []api.FeatureLocalInterface{w.F3, w.F1}
	if ki == 2 {
		feats = []api.FeatureLocalInterface{nm, w.F3}
	}
	c1, c2 := verifrt.U64("counter1"), verifrt.U64("counter2")
	// (above the handful of counters the stack itself used while connecting, so that the references below do not
	// accidentally answer one of its own pending requests)
	verifrt.Assume(verifrt.All(c1 != c2, c1 > 1000, c2 > 1000))
	ctrs := []uint64{c1, c2}
	// registrations: for feature 0: cbA on counter1 (maybe), cbB on counter1 (maybe), cbA on counter2 (maybe); feature 1: cbA on counter1 (maybe)
	type reg struct {
		f, c, cb int
		on       bool
	}
	regs := []*reg{{0, 0, 0, false}, {0, 0, 1, false}, {0, 1, 0, false}, {1, 0, 0, false}}
	cbs := []func(api.ResponseMessage){vhCbA, vhCbB}
	for i, r := range regs {
		r.on = verifrt.Concrete(verifrt.Bool(fmt.Sprintf("registered[%d]", i)))
		if r.on {
			err := feats[r.f].AddResponseCallback(model.MsgCounterType(ctrs[r.c]), cbs[r.cb])
			verifrt.Assert("first-registration-accepted", err == nil)
		}
	}
	// the first triple (feature 0, counter1, callback A) is registered a second time - whatever else has been
	// registered for that counter in between - and must be refused
	if regs[0].on && verifrt.Concrete(verifrt.Bool("duplicate-registration")) {
		err := feats[0].AddResponseCallback(model.MsgCounterType(ctrs[0]), vhCbA)
		verifrt.Reach("duplicate-registration")
		verifrt.Assert("same-callback-twice-for-one-counter-is-refused", err != nil)
	}
	resultCb := verifrt.Concrete(verifrt.Bool("result-callback"))
	if resultCb {
		feats[0].AddResultCallback(vhCbR)
	}

	// ---- arrivals
	type arr struct {
		f      int
		ref    uint64
		hasRef bool
		peer   int
		ok     bool
	}
	var arrs []arr
	for i := 0; i < arrivals; i++ {
		tag := fmt.Sprintf("arrival[%d]", i)
		a := arr{f: verifrt.Choice(tag+".feature", 2), hasRef: true, ok: true}
		if i == 0 {
			a.hasRef = verifrt.Concrete(verifrt.Bool(tag + ".hasRef"))
			if arrivals == 1 {
				a.peer = verifrt.Choice(tag+".peer", 2) // (with two arrivals both come from peer A)
			}
			if !a.hasRef {
				verifrt.Scenario(kinds[ki] + "/missing-reference")
			}
		} else {
			a.peer = arrs[0].peer // the second arrival comes from the same peer and carries a reference
		}
		refSel := firstRef
		if i > 0 {
			refSel = verifrt.Choice(tag+".ref", 3)
		}
		switch refSel {
		case 0:
			a.ref = c1
		case 1:
			a.ref = c2
		default:
			a.ref = verifrt.U64(tag + ".otherRef")
			verifrt.Assume(verifrt.All(a.ref != c1, a.ref != c2, a.ref > 1000))
		}
		r, _, dev := w.peer(a.peer)
		src := vhAddr(dev, []uint{1}, 2) // the peers' LoadControl server
		var cmd model.CmdType
		cl := model.CmdClassifierTypeReply
		switch ki {
		case 0:
			if arrivals == 1 && verifrt.Concrete(verifrt.Bool(tag+".unacceptable")) {
				// a function the source feature's type does not have: the reply is rejected
				cmd = model.CmdType{MeasurementListData: &model.MeasurementListDataType{}}
				a.ok = false
			} else {
				cmd = model.CmdType{LoadControlLimitListData: vhLimitList(uint(i+1), true)}
			}
		case 1:
			cl = model.CmdClassifierTypeResult
			cmd = model.CmdType{ResultData: &model.ResultDataType{ErrorNumber: util.Ptr(model.ErrorNumberType(verifrt.Choice(tag+".errorNumber", 2)))}}
		case 2:
			src = vhAddr(dev, []uint{0}, 0)
			cmd = model.CmdType{NodeManagementUseCaseData: &model.NodeManagementUseCaseDataType{}}
		}
		h := w.hdr(src, feats[a.f].Address(), cl, false)
		if a.hasRef {
			h.MsgCounterReference = util.Ptr(model.MsgCounterType(a.ref))
		}
		vhDeliver(r, model.DatagramType{Header: h, Payload: model.PayloadType{Cmd: []model.CmdType{cmd}}})
		verifrt.RunReadyFIFO()
		arrs = append(arrs, a)
	}
	verifrt.Reach("arrived")

	// ---- reference: expected invocation multiset
	want := map[string]int{}
	live := map[int]bool{}
	for i, r := range regs {
		live[i] = r.on
	}
	for _, a := range arrs {
		if !a.hasRef || !a.ok {
			continue
		}
		r, _, dev := w.peer(a.peer)
		_ = r
		for i, rg := range regs {
			if live[i] && rg.f == a.f && verifrt.Concrete(ctrs[rg.c] == a.ref) {
				want[fmt.Sprintf("cb%d f%d c%d peer%s", rg.cb, rg.f, rg.c, dev)]++
				live[i] = false
			}
		}
		if ki == 1 && resultCb && a.f == 0 {
			want[fmt.Sprintf("result f%d peer%s", a.f, dev)]++
		}
	}
	got := map[string]int{}
	rightRemote := true
	for _, c := range vhCalls {
		fi := -1
		for i, f := range feats {
			if c.feat == f {
				fi = i
			}
		}
		dev := "?"
		if c.rem != nil && c.rem.Device() != nil && c.rem.Device().Address() != nil {
			dev = string(*c.rem.Device().Address())
		}
		if c.cb == 2 {
			got[fmt.Sprintf("result f%d peer%s", fi, dev)]++
			continue
		}
		ci := -1
		for i := range ctrs {
			if verifrt.Concrete(ctrs[i] == c.ref) {
				ci = i
			}
		}
		got[fmt.Sprintf("cb%d f%d c%d peer%s", c.cb, fi, ci, dev)]++
		rightRemote = rightRemote && c.data != nil
	}
	same := len(got) == len(want)
	for k, v := range want {
		same = same && got[k] == v
	}
	verifrt.Assert("callbacks-fire-exactly-once-for-the-right-reference-and-feature", same)
	verifrt.Assert("callbacks-receive-the-data", rightRemote)
	verifrt.Observe("invocations", len(vhCalls))
}

func init() {
	verifrt.Register("VH_c14_race", VH_c14_race)
}

// C14 (schedules): registrations concurrent with each other and with an arrival.
func VH_c14_race() {
	sc := verifrt.ShardChoice("case", 3)
	verifrt.Scenario([]string{"two-registrations-of-one-callback", "registration-racing-with-the-reply", "registration-racing-with-a-result"}[sc])
	vhCalls = nil
	w := vhNewWorld(vhWorldOpts{noEvents: true, onlyA: true})
	const ctr = 5000
	src := vhAddr("A", []uint{1}, 2)
	switch sc {
	case 0:
		var e1, e2 error
		verifrt.Go(func() { e1 = w.F3.AddResponseCallback(ctr, vhCbA) })
		verifrt.Go(func() { e2 = w.F3.AddResponseCallback(ctr, vhCbA) })
		verifrt.PreemptOn()
		verifrt.WaitIdle()
		verifrt.PreemptOff()
		verifrt.Reach("both-done")
		verifrt.Assert("exactly-one-of-two-concurrent-registrations-of-the-same-callback-is-accepted", (e1 == nil) != (e2 == nil))
	default:
		cl := model.CmdClassifierTypeReply
		cmd := model.CmdType{LoadControlLimitListData: vhLimitList(1, true)}
		if sc == 2 {
			cl = model.CmdClassifierTypeResult
			cmd = model.CmdType{ResultData: &model.ResultDataType{ErrorNumber: util.Ptr(model.ErrorNumberType(0))}}
		}
		h := w.hdr(src, w.F3.Address(), cl, false)
		h.MsgCounterReference = util.Ptr(model.MsgCounterType(ctr))
		d := model.DatagramType{Header: h, Payload: model.PayloadType{Cmd: []model.CmdType{cmd}}}
		var e1 error
		verifrt.Go(func() { e1 = w.F3.AddResponseCallback(ctr, vhCbA) })
		verifrt.Go(func() { vhDeliver(w.rA, d) })
		verifrt.PreemptOn()
		verifrt.WaitIdle()
		verifrt.PreemptOff()
		verifrt.RunReadyFIFO()
		verifrt.Reach("both-done")
		verifrt.Assert("registration-accepted", e1 == nil)
		first := len(vhCalls)
		verifrt.Assert("callback-invoked-at-most-once", first <= 1)
		// not lost: if the arrival came first the registration is still pending and a second arrival fires it
		h2 := w.hdr(src, w.F3.Address(), cl, false)
		h2.MsgCounterReference = util.Ptr(model.MsgCounterType(ctr))
		vhDeliver(w.rA, model.DatagramType{Header: h2, Payload: model.PayloadType{Cmd: []model.CmdType{cmd}}})
		verifrt.RunReadyFIFO()
		verifrt.Assert("callback-invoked-exactly-once-over-both-arrivals", len(vhCalls) == 1)
	}
	verifrt.Assert("no-thread-left-blocked", verifrt.BlockedThreads() == 0)
}
