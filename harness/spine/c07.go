package spine

import (
	"fmt"

	"github.com/enbility/spine-go/api"
	"github.com/enbility/spine-go/model"
	"github.com/enbility/spine-go/util"
	"github.com/enbility/spine-go/verifrt"
)

func init() {
	verifrt.Register("VH_c07_localtree", VH_c07_localtree)
	verifrt.Register("VH_c07_getoradd", VH_c07_getoradd)
}

var vhC07Types = []model.FeatureTypeType{model.FeatureTypeTypeLoadControl, model.FeatureTypeTypeMeasurement, model.FeatureTypeTypeDeviceConfiguration}
var vhC07Roles = []model.RoleType{model.RoleTypeClient, model.RoleTypeServer}
var vhC07Fns = map[model.FeatureTypeType]model.FunctionType{
	model.FeatureTypeTypeLoadControl:         model.FunctionTypeLoadControlLimitListData,
	model.FeatureTypeTypeMeasurement:         model.FunctionTypeMeasurementListData,
	model.FeatureTypeTypeDeviceConfiguration: model.FunctionTypeDeviceConfigurationKeyValueListData,
}

type vhShadowFeat struct {
	addr        *model.FeatureAddressType
	typ         model.FeatureTypeType
	role        model.RoleType
	fn          model.FunctionType
	hasFn       bool
	read, write bool
	obj         api.FeatureLocalInterface
}

type vhShadowEnt struct {
	ent   *EntityLocal
	feats []*vhShadowFeat
}

// C07: the discovery reply lists exactly the current local tree; entity add/remove is notified once to subscribed peers.
func VH_c07_localtree() {
	w := vhNewWorld(vhWorldOpts{})
	nmL := vhAddr("L", []uint{0}, 0)
	// peer A subscribes to node management, peer B does not
	sub := model.CmdType{NodeManagementSubscriptionRequestCall: NewNodeManagementSubscriptionRequestCallType(vhAddr("A", []uint{0}, 0), nmL, model.FeatureTypeTypeNodeManagement)}
	vhDeliver(w.rA, model.DatagramType{Header: w.hdr(vhAddr("A", []uint{0}, 0), nmL, model.CmdClassifierTypeCall, false), Payload: model.PayloadType{Cmd: []model.CmdType{sub}}})

	// ---- a symbolically configured extra entity [2] or [1,1]
	sel := verifrt.ShardChoice("entity", 2)
	addr := [][]uint{{2}, {1, 1}}[sel]
	verifrt.Scenario(fmt.Sprintf("entity%v", addr))
	e := NewEntityLocal(w.L, model.EntityTypeTypeEVSE, NewAddressEntityType(addr), 0)
	sh := &vhShadowEnt{ent: e}
	nf := verifrt.Choice("features", 3)
	for i := 0; i < nf; i++ {
		tag := fmt.Sprintf("feature[%d]", i)
		t := vhC07Types[verifrt.Choice(tag+".type", 3)]
		r := vhC07Roles[verifrt.Choice(tag+".role", 2)]
		dup := false
		for _, f := range sh.feats {
			dup = dup || (f.typ == t && f.role == r)
		}
		f := e.GetOrAddFeature(t, r)
		if dup {
			verifrt.Reach("repeated-type-and-role")
			same := false
			for _, s := range sh.feats {
				same = same || (s.typ == t && s.role == r && s.obj == f)
			}
			verifrt.Assert("asking-again-for-one-type-and-role-yields-the-same-feature", same)
			continue
		}
		s := &vhShadowFeat{addr: f.Address(), typ: t, role: r, obj: f, fn: vhC07Fns[t]}
		if verifrt.Concrete(verifrt.Bool(tag + ".function")) {
			s.read, s.write = verifrt.Concrete(verifrt.Bool(tag+".read")), verifrt.Concrete(verifrt.Bool(tag+".write"))
			f.AddFunctionType(s.fn, s.read, s.write)
			s.hasFn = r == model.RoleTypeServer // functions are only announced by server features
		}
		sh.feats = append(sh.feats, s)
	}
	// feature numbers within the entity are pairwise distinct
	distinct := true
	for i, a := range sh.feats {
		for _, b := range sh.feats[:i] {
			distinct = distinct && *a.addr.Feature != *b.addr.Feature
		}
	}
	verifrt.Assert("feature-numbers-within-an-entity-are-distinct", distinct)

	// ---- add it: exactly one partial notification to the subscribed peer, none to the other
	a0, b0 := len(w.wA.msgs), len(w.wB.msgs)
	w.L.AddEntity(e)
	verifrt.Reach("entity-added")
	checkNotify := func(from int, added bool) {
		out := vhCount(w.wA, from)
		ok := out.notifies == 1 && len(w.wA.msgs)-from == 1
		if ok {
			c := out.dgs[0].Payload.Cmd[0]
			dd := c.NodeManagementDetailedDiscoveryData
			fp, _ := c.ExtractFilter()
			ok = dd != nil && fp != nil && len(dd.EntityInformation) == 1 && dd.EntityInformation[0].Description != nil &&
				verifrt.Concrete(verifrt.DeepEq(dd.EntityInformation[0].Description.EntityAddress.Entity, e.Address().Entity)) &&
				dd.EntityInformation[0].Description.LastStateChange != nil
			if ok {
				st := *dd.EntityInformation[0].Description.LastStateChange
				if added {
					ok = st == model.NetworkManagementStateChangeTypeAdded && len(dd.FeatureInformation) == len(sh.feats)
				} else {
					ok = st == model.NetworkManagementStateChangeTypeRemoved && len(dd.FeatureInformation) == 0
				}
			}
		}
		verifrt.Assert("one-partial-notification-describing-the-entity-to-the-subscribed-peer", ok)
		verifrt.Assert("nothing-to-the-unsubscribed-peer", len(w.wB.msgs) == b0)
	}
	checkNotify(a0, true)

	// ---- discovery read (from the unsubscribed peer): the reply is exactly the tree
	read := func() *model.NodeManagementDetailedDiscoveryDataType {
		b1 := len(w.wB.msgs)
		vhDeliver(w.rB, model.DatagramType{Header: w.hdr(vhAddr("B", []uint{0}, 0), nmL, model.CmdClassifierTypeRead, false), Payload: model.PayloadType{Cmd: []model.CmdType{{NodeManagementDetailedDiscoveryData: &model.NodeManagementDetailedDiscoveryDataType{}}}}})
		out := vhCount(w.wB, b1)
		b0 = len(w.wB.msgs)
		if out.replies != 1 {
			return nil
		}
		return out.dgs[len(out.dgs)-1].Payload.Cmd[0].NodeManagementDetailedDiscoveryData
	}
	dd := read()
	verifrt.Assert("discovery-read-is-answered", dd != nil)
	if dd != nil {
		verifrt.Assert("reply-lists-exactly-the-entities", len(dd.EntityInformation) == len(w.L.Entities()) && len(w.L.Entities()) == 3)
		faithful := true
		mine := 0
		for _, fi := range dd.FeatureInformation {
			d := fi.Description
			if d == nil || d.FeatureAddress == nil || !verifrt.Concrete(verifrt.DeepEq(d.FeatureAddress.Entity, e.Address().Entity)) {
				continue
			}
			mine++
			var s *vhShadowFeat
			for _, x := range sh.feats {
				if *x.addr.Feature == *d.FeatureAddress.Feature {
					s = x
				}
			}
			if s == nil {
				faithful = false
				continue
			}
			faithful = faithful && d.FeatureType != nil && *d.FeatureType == s.typ && d.Role != nil && *d.Role == s.role && w.L.FeatureByAddress(d.FeatureAddress) == s.obj
			if s.hasFn {
				faithful = faithful && len(d.SupportedFunction) == 1 && d.SupportedFunction[0].Function != nil && *d.SupportedFunction[0].Function == s.fn &&
					d.SupportedFunction[0].PossibleOperations != nil && (d.SupportedFunction[0].PossibleOperations.Read != nil) == s.read && (d.SupportedFunction[0].PossibleOperations.Write != nil) == s.write
			} else {
				faithful = faithful && len(d.SupportedFunction) == 0
			}
		}
		verifrt.Assert("reply-lists-every-feature-with-type-role-and-operations", faithful && mine == len(sh.feats))
	}

	// ---- remove it again
	a0 = len(w.wA.msgs)
	w.L.RemoveEntity(e)
	verifrt.Reach("entity-removed")
	checkNotify(a0, false)
	dd = read()
	gone := dd != nil && len(dd.EntityInformation) == 2
	if dd != nil {
		for _, fi := range dd.FeatureInformation {
			gone = gone && !verifrt.Concrete(verifrt.DeepEq(fi.Description.FeatureAddress.Entity, e.Address().Entity))
		}
	}
	verifrt.Assert("removed-entity-is-no-longer-announced", gone)
	_ = util.Ptr[int]
}

// two goroutines ask for the feature of one type and role at the same time
func VH_c07_getoradd() {
	verifrt.Scenario("concurrent-GetOrAddFeature")
	w := vhNewWorld(vhWorldOpts{onlyA: true, noEvents: true})
	var f1, f2 api.FeatureLocalInterface
	verifrt.Go(func() { f1 = w.E1.GetOrAddFeature(model.FeatureTypeTypeSetpoint, model.RoleTypeServer) })
	verifrt.Go(func() { f2 = w.E1.GetOrAddFeature(model.FeatureTypeTypeSetpoint, model.RoleTypeServer) })
	verifrt.PreemptOn()
	verifrt.WaitIdle()
	verifrt.PreemptOff()
	verifrt.Reach("both-done")
	n := 0
	for _, f := range w.E1.Features() {
		if f.Type() == model.FeatureTypeTypeSetpoint && f.Role() == model.RoleTypeServer {
			n++
		}
	}
	verifrt.Assert("concurrent-requests-yield-one-and-the-same-feature", f1 == f2 && n == 1)
}

func init() {
	verifrt.Register("VH_c07_window", VH_c07_window)
}

// C07 (schedules): a detailed-discovery read handled while the application adds or removes a local entity
// is answered with the tree before or the tree after the change - never with a list that no moment had.
func VH_c07_window() {
	ops := []string{"remove-first-extra-entity", "remove-middle-entity", "remove-last-entity", "add-entity"}
	oi := verifrt.ShardChoice("op", len(ops))
	verifrt.Scenario("discovery-read || " + ops[oi])
	w := vhNewWorld(vhWorldOpts{onlyA: true, noEvents: true})
	var extra []*EntityLocal
	for _, a := range [][]uint{{2}, {3}, {4}} {
		e := NewEntityLocal(w.L, model.EntityTypeTypeEVSE, NewAddressEntityType(a), 0)
		e.GetOrAddFeature(model.FeatureTypeTypeLoadControl, model.RoleTypeServer)
		w.L.AddEntity(e)
		extra = append(extra, e)
	}
	fresh := NewEntityLocal(w.L, model.EntityTypeTypeEVSE, NewAddressEntityType([]uint{5}), 0)
	fresh.GetOrAddFeature(model.FeatureTypeTypeMeasurement, model.RoleTypeServer)
	nmL, nmA := vhAddr("L", []uint{0}, 0), vhAddr("A", []uint{0}, 0)
	tree := func() string {
		s := ""
		for _, e := range w.L.Entities() {
			s += fmt.Sprint(e.Address().Entity) + "{"
			for _, f := range e.Features() {
				s += fmt.Sprint(*f.Address().Feature) + ","
			}
			s += "}"
		}
		return s
	}
	before := tree()
	d := model.DatagramType{Header: w.hdr(nmA, nmL, model.CmdClassifierTypeRead, false), Payload: model.PayloadType{Cmd: []model.CmdType{{NodeManagementDetailedDiscoveryData: &model.NodeManagementDetailedDiscoveryDataType{}}}}}
	m0 := len(w.wA.msgs)
	verifrt.Go(func() { vhDeliver(w.rA, d) })
	verifrt.Go(func() {
		switch oi {
		case 0, 1, 2:
			w.L.RemoveEntity(extra[oi])
		default:
			w.L.AddEntity(fresh)
		}
	})
	verifrt.PreemptOn()
	verifrt.WaitIdle()
	verifrt.PreemptOff()
	verifrt.RunReadyFIFO()
	verifrt.Reach("both-done")
	after := tree()
	out := vhCount(w.wA, m0)
	verifrt.Assert("read-is-answered-with-one-reply", out.replies == 1)
	got := ""
	for _, dg := range out.dgs {
		if dg.Header.CmdClassifier == nil || *dg.Header.CmdClassifier != model.CmdClassifierTypeReply || len(dg.Payload.Cmd) == 0 || dg.Payload.Cmd[0].NodeManagementDetailedDiscoveryData == nil {
			continue
		}
		dd := dg.Payload.Cmd[0].NodeManagementDetailedDiscoveryData
		for _, ei := range dd.EntityInformation {
			if ei.Description == nil || ei.Description.EntityAddress == nil {
				continue
			}
			got += fmt.Sprint(ei.Description.EntityAddress.Entity) + "{"
			for _, fi := range dd.FeatureInformation {
				if fi.Description != nil && fi.Description.FeatureAddress != nil && fmt.Sprint(fi.Description.FeatureAddress.Entity) == fmt.Sprint(ei.Description.EntityAddress.Entity) {
					got += fmt.Sprint(*fi.Description.FeatureAddress.Feature) + ","
				}
			}
			got += "}"
		}
	}
	verifrt.Assert("reply-lists-the-tree-before-or-after-the-change", got == before || got == after)
	verifrt.Observe("before", got == before)
}
