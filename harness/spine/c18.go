package spine

import (
	"encoding/json"
	"fmt"
	"reflect"

	"github.com/enbility/spine-go/api"
	"github.com/enbility/spine-go/model"
	"github.com/enbility/spine-go/verifrt"
)

func init() {
	verifrt.Register("VH_c18_tags", VH_c18_tags)
	verifrt.Register("VH_c18_names", VH_c18_names)
}

func vhAllCmds() []api.FunctionDataCmdInterface {
	var out []api.FunctionDataCmdInterface
	for _, ft := range vhAllFeatureTypes {
		out = append(out, CreateFunctionData[api.FunctionDataCmdInterface](ft)...)
	}
	return out
}

// vhRoundTrip encodes a command to JSON and decodes it again (natively the real
// encoding/json; in the engine the token stub with JSON normalisation).
func vhRoundTrip(cmd model.CmdType) model.CmdType {
	b, err := json.Marshal(cmd)
	verifrt.Assert("command-encodes", err == nil)
	var out model.CmdType
	err = json.Unmarshal(b, &out)
	verifrt.Assert("command-decodes", err == nil)
	return out
}

var vhC18Shapes = []string{"read", "read-selector", "read-elements", "reply", "reply-partial", "notify-full", "notify-partial", "notify-partial-selector", "notify-delete-selector", "notify-delete-elements",
	"read-selector-elements", "notify-delete-selector-elements", "notify-delete-and-partial-selector"}

// C18 (tag-resolution half): for every registered function the command the API builds, after a JSON
// round trip, is recognised as the same function with the same payload type and yields the same filters.
func VH_c18_tags() {
	cmds := vhAllCmds()
	descs := map[model.FunctionType]model.VHFunc{}
	for _, d := range model.VHFuncs() {
		descs[d.Function] = d
	}
	c := verifrt.ShardChoice("case", len(cmds)*len(vhC18Shapes))
	fdc := cmds[c/len(vhC18Shapes)]
	shape := vhC18Shapes[c%len(vhC18Shapes)]
	fn := fdc.FunctionType()
	verifrt.Scenario(fmt.Sprintf("%s/%s", fn, shape))
	d, known := descs[fn]
	verifrt.Assert("registered-function-has-a-command-field", known)
	if !known {
		return
	}
	spec := verifrt.Spec{Depth: 1, MaxUint: 999, Skip: []string{"TimePeriodType"}}
	var sel, elem any
	both := shape == "read-selector-elements" || shape == "notify-delete-selector-elements"
	twoSel := shape == "notify-delete-and-partial-selector"
	needSel := shape == "read-selector" || shape == "notify-partial-selector" || shape == "notify-delete-selector" || both || twoSel
	needElem := shape == "read-elements" || shape == "notify-delete-elements" || both
	var sel2 any
	if needSel {
		if d.NewSel == nil {
			verifrt.Reach("no-selector-type")
			return
		}
		sel = d.NewSel()
		verifrt.Fill("sel", sel, spec)
		if twoSel {
			sel2 = d.NewSel()
			verifrt.Fill("sel2", sel2, spec)
		}
	}
	if needElem {
		if d.NewElem == nil || d.ElemShared {
			verifrt.Reach("no-own-elements-type")
			return
		}
		elem = d.NewElem()
		verifrt.Fill("elem", elem, spec)
	}
	// stored data for reply / notify
	data := d.NewPayload()
	isRead := shape == "read" || shape == "read-selector" || shape == "read-elements" || shape == "read-selector-elements"
	if !isRead {
		verifrt.Fill("data", data, verifrt.Spec{MaxLen: 1, Depth: 1, MaxUint: 999, Skip: []string{"TimePeriodType"}})
		_, _ = fdc.UpdateDataAny(false, true, data, nil, nil)
	}

	var cmd model.CmdType
	wantPartial, wantDelete := false, false
	switch shape {
	case "read":
		cmd = fdc.ReadCmdType(nil, nil)
	case "read-selector":
		cmd = fdc.ReadCmdType(sel, nil)
		wantPartial = true
	case "read-elements":
		cmd = fdc.ReadCmdType(nil, elem)
		wantPartial = true
	case "reply":
		cmd = fdc.ReplyCmdType(false)
	case "reply-partial":
		cmd = fdc.ReplyCmdType(true)
		wantPartial = true
	case "notify-full":
		cmd = fdc.NotifyOrWriteCmdType(nil, nil, false, nil)
	case "notify-partial":
		cmd = fdc.NotifyOrWriteCmdType(nil, nil, true, nil)
		wantPartial = true
	case "notify-partial-selector":
		cmd = fdc.NotifyOrWriteCmdType(nil, sel, false, nil)
		wantPartial = true
	case "notify-delete-selector":
		cmd = fdc.NotifyOrWriteCmdType(sel, nil, false, nil)
		wantDelete = true
	case "notify-delete-elements":
		cmd = fdc.NotifyOrWriteCmdType(nil, nil, false, elem)
		wantDelete = true
	case "read-selector-elements":
		cmd = fdc.ReadCmdType(sel, elem)
		wantPartial = true
	case "notify-delete-selector-elements":
		cmd = fdc.NotifyOrWriteCmdType(sel, nil, false, elem)
		wantDelete = true
	case "notify-delete-and-partial-selector":
		cmd = fdc.NotifyOrWriteCmdType(sel, sel2, false, nil)
		wantDelete, wantPartial = true, true
	}
	verifrt.Reach("built")
	got := vhRoundTrip(cmd)

	cd, err := got.Data()
	verifrt.Assert("payload-recognised", err == nil)
	if err == nil {
		verifrt.Assert("recognised-as-the-same-function", cd.Function != nil && *cd.Function == fn)
		verifrt.Assert("same-payload-type", reflect.TypeOf(cd.Value) == reflect.TypeOf(d.NewPayload()))
		if !isRead {
			verifrt.Assert("same-payload", verifrt.DeepEq(cd.Value, data))
		}
	}
	fp, fd := got.ExtractFilter()
	verifrt.Assert("partial-filter-as-built", (fp != nil) == wantPartial)
	verifrt.Assert("delete-filter-as-built", (fd != nil) == wantDelete)
	check := func(f *model.FilterType, wantSel, wantElem any) {
		if f == nil {
			return
		}
		if wantSel == nil && wantElem == nil {
			return
		}
		fdat, err := f.Data()
		verifrt.Assert("filter-recognised", err == nil)
		if err != nil {
			return
		}
		verifrt.Assert("filter-names-the-function", fdat.Function != nil && *fdat.Function == fn)
		if wantSel != nil {
			verifrt.Assert("same-selectors", fdat.Selector != nil && verifrt.Concrete(verifrt.DeepEq(fdat.Selector, wantSel)))
		}
		if wantElem != nil {
			verifrt.Assert("same-elements", fdat.Elements != nil && verifrt.Concrete(verifrt.DeepEq(fdat.Elements, wantElem)))
		}
	}
	switch shape {
	case "read-selector", "notify-partial-selector":
		check(fp, sel, nil)
	case "read-elements":
		check(fp, nil, elem)
	case "notify-delete-selector":
		check(fd, sel, nil)
	case "notify-delete-elements":
		check(fd, nil, elem)
	case "read-selector-elements":
		check(fp, sel, elem)
	case "notify-delete-selector-elements":
		check(fd, sel, elem)
	case "notify-delete-and-partial-selector":
		check(fd, sel, nil)
		check(fp, sel2, nil)
	}
}

// Every registered function name (a symbolic string constrained to the registered set) resolves,
// through the tag comparisons of CmdType.SetDataForFunction, to a payload field that Data() reports
// under the same name: the solver returns the name whose tag is missing or misspelt.
func VH_c18_names() {
	cmds := vhAllCmds()
	var names []string
	for _, c := range cmds {
		names = append(names, string(c.FunctionType()))
	}
	fn := model.FunctionType(verifrt.Str("function", names...))
	verifrt.Scenario("symbolic-function-name")
	descs := model.VHFuncs()
	cmd := model.CmdType{}
	// the payload pointer must have the right type: pick it by the same symbolic name
	var data any
	for _, d := range descs {
		if fn == d.Function {
			data = d.NewPayload()
		}
	}
	verifrt.Assert("registered-function-has-a-payload-type", data != nil)
	if data == nil {
		return
	}
	cmd.SetDataForFunction(fn, data)
	verifrt.Reach("set")
	cd, err := cmd.Data()
	verifrt.Assert("name-resolves-to-a-payload-field", err == nil)
	if err == nil {
		verifrt.Assert("resolved-field-reports-the-same-name", cd.Function != nil && *cd.Function == fn)
	}
}
