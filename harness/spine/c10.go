package spine

import (
	"fmt"
	"time"

	"github.com/enbility/spine-go/api"
	"github.com/enbility/spine-go/model"
	"github.com/enbility/spine-go/util"
	"github.com/enbility/spine-go/verifrt"
)

func init() {
	verifrt.Register("VH_c10_teardown", VH_c10_teardown)
}

// C10 (inductive step): removal of peer A's connection, or of one entity of A, from an arbitrary state of
// registries, client-side bookkeeping and pending write approvals of two peers with identical numbering.
func VH_c10_teardown() {
	ops := []string{"disconnect-A", "entity-[1]-of-A-removed", "entity-[1,1]-of-A-removed"}
	oi := verifrt.ShardChoice("op", len(ops))
	verifrt.Scenario(ops[oi])
	w := vhNewWorld(vhWorldOpts{secondEntity: true, subEntity: true})
	sm := w.L.SubscriptionManager().(*SubscriptionManager)
	bm := w.L.BindingManager().(*BindingManager)
	f3 := w.F3.(*FeatureLocal)
	f1 := w.F1.(*FeatureLocal)
	nmL := vhAddr("L", []uint{0}, 0)

	type ref struct {
		peer int
		ent  string
		cf   api.FeatureRemoteInterface
	}
	var subs, binds []ref
	id := uint64(0)
	// entity [1] of a peer may hold a second, adjacent registry entry (its Measurement client on F2)
	second := verifrt.Concrete(verifrt.Bool("pre.second-subscription-of-entity-1"))
	for p := 0; p < 2; p++ {
		r, _, dev := w.peer(p)
		for _, e := range [][]uint{{1}, {1, 1}} {
			cf := r.FeatureByAddress(vhAddr(dev, e, 1))
			if verifrt.Concrete(verifrt.Bool(fmt.Sprintf("pre.sub.%s%v", dev, e))) {
				id++
				sm.subscriptionEntries = append(sm.subscriptionEntries, &api.SubscriptionEntry{Id: id, ServerFeature: w.F1, ClientFeature: cf})
				subs = append(subs, ref{p, vhEntKey(NewAddressEntityType(e)), cf})
				if second && len(e) == 1 {
					mc := r.FeatureByAddress(vhAddr(dev, e, 3))
					id++
					sm.subscriptionEntries = append(sm.subscriptionEntries, &api.SubscriptionEntry{Id: id, ServerFeature: w.F2, ClientFeature: mc})
					subs = append(subs, ref{p, vhEntKey(NewAddressEntityType(e)), mc})
				}
			}
			if verifrt.Concrete(verifrt.Bool(fmt.Sprintf("pre.cache.%s%v", dev, e))) {
				f3.subscriptions = append(f3.subscriptions, vhAddr(dev, e, 2))
				f3.bindings = append(f3.bindings, vhAddr(dev, e, 2))
			}
		}
	}
	vhSetSubscriptionNum(sm, id)
	// bindings: F1 <- one of the peers' [1].1, F4 <- the other peer's [1].1 (symbolic which)
	bsel := verifrt.Choice("pre.bind", 4) // 0 none, 1 A->F1, 2 A->F1 & B->F4, 3 B->F1 & A->F4
	var bnum uint64
	addBind := func(p int, srv api.FeatureLocalInterface) {
		r, _, dev := w.peer(p)
		cf := r.FeatureByAddress(vhAddr(dev, []uint{1}, 1))
		bnum++
		vhSetBindingNum(bm, bnum)
		bm.bindingEntries = append(bm.bindingEntries, &api.BindingEntry{Id: bnum, ServerFeature: srv, ClientFeature: cf})
		binds = append(binds, ref{p, vhEntKey(NewAddressEntityType([]uint{1})), cf})
	}
	switch bsel {
	case 1:
		addBind(0, w.F1)
	case 2:
		addBind(0, w.F1)
		addBind(1, w.F4)
	case 3:
		addBind(1, w.F1)
		addBind(0, w.F4)
	}
	// pending write approval of the peer bound to F1 (armed through the real path)
	w.F1.SetData(model.FunctionTypeLoadControlLimitListData, vhTwoLimits())
	f1.SetWriteApprovalTimeout(time.Second)
	var pendMsg *api.Message
	_ = f1.AddWriteApprovalCallback(func(m *api.Message) { pendMsg = m })
	pendPeer := -1
	if bsel != 0 && verifrt.Concrete(verifrt.Bool("pre.pending-write")) {
		pendPeer = 0
		if bsel == 3 {
			pendPeer = 1
		}
		r, _, dev := w.peer(pendPeer)
		item := model.LoadControlLimitDataType{LimitId: util.Ptr(model.LoadControlLimitIdType(10)), IsLimitActive: util.Ptr(true)}
		cmd := model.CmdType{Function: util.Ptr(model.FunctionTypeLoadControlLimitListData), Filter: []model.FilterType{*model.NewFilterTypePartial()},
			LoadControlLimitListData: &model.LoadControlLimitListDataType{LoadControlLimitData: []model.LoadControlLimitDataType{item}}}
		vhDeliver(r, model.DatagramType{Header: w.hdr(vhAddr(dev, []uint{1}, 1), w.F1.Address(), model.CmdClassifierTypeWrite, true), Payload: model.PayloadType{Cmd: []model.CmdType{cmd}}})
		verifrt.RunReadyFIFO()
	}
	ev0 := len(w.events)
	preSubs, preBinds := len(sm.subscriptionEntries), len(bm.bindingEntries)

	// ---- the operation
	gone := func(r ref) bool {
		if r.peer != 0 {
			return false
		}
		switch oi {
		case 0:
			return true
		case 1:
			return r.ent == vhEntKey(NewAddressEntityType([]uint{1}))
		default:
			return r.ent == vhEntKey(NewAddressEntityType([]uint{1, 1}))
		}
	}
	if oi == 0 {
		w.L.RemoveRemoteDeviceConnection("skiA")
	} else {
		e := [][]uint{nil, {1}, {1, 1}}[oi]
		ei := vhEntInfo("A", e)
		ei.Description.LastStateChange = util.Ptr(model.NetworkManagementStateChangeTypeRemoved)
		dd := &model.NodeManagementDetailedDiscoveryDataType{
			DeviceInformation: &model.NodeManagementDetailedDiscoveryDeviceInformationType{Description: &model.NetworkManagementDeviceDescriptionDataType{DeviceAddress: &model.DeviceAddressType{Device: util.Ptr(model.AddressDeviceType("A"))}}},
			EntityInformation: []model.NodeManagementDetailedDiscoveryEntityInformationType{ei}}
		cmd := model.CmdType{Function: util.Ptr(model.FunctionTypeNodeManagementDetailedDiscoveryData), Filter: []model.FilterType{*model.NewFilterTypePartial()}, NodeManagementDetailedDiscoveryData: dd}
		vhDeliver(w.rA, model.DatagramType{Header: w.hdr(vhAddr("A", []uint{0}, 0), nmL, model.CmdClassifierTypeNotify, false), Payload: model.PayloadType{Cmd: []model.CmdType{cmd}}})
	}
	verifrt.Reach("removed")
	aAfter := len(w.wA.msgs)

	// ---- registries: pre minus exactly the entries of the removed device / entity
	wantSubs, wantBinds, subsOK, bindsOK := 0, 0, true, true
	for _, s := range subs {
		present := false
		for _, e := range sm.subscriptionEntries {
			present = present || e.ClientFeature == s.cf
		}
		if !gone(s) {
			wantSubs++
		}
		subsOK = subsOK && present == !gone(s)
	}
	for _, b := range binds {
		present := false
		for _, e := range bm.bindingEntries {
			present = present || e.ClientFeature == b.cf
		}
		if !gone(b) {
			wantBinds++
		}
		bindsOK = bindsOK && present == !gone(b)
	}
	verifrt.Assert("exactly-the-removed-peers-subscriptions-disappear", subsOK && len(sm.subscriptionEntries) == wantSubs)
	verifrt.Assert("removal-cascades-to-exactly-that-entitys-bindings", bindsOK && len(bm.bindingEntries) == wantBinds)
	nSubEv, nBindEv, nDevEv := 0, 0, 0
	for _, e := range w.events[ev0:] {
		switch {
		case e.EventType == api.EventTypeSubscriptionChange && e.ChangeType == api.ElementChangeRemove:
			nSubEv++
		case e.EventType == api.EventTypeBindingChange && e.ChangeType == api.ElementChangeRemove:
			nBindEv++
		case e.EventType == api.EventTypeDeviceChange && e.ChangeType == api.ElementChangeRemove:
			nDevEv++
		}
	}
	verifrt.Assert("one-removal-event-per-registry-entry", nSubEv == preSubs-wantSubs && nBindEv == preBinds-wantBinds)
	// client-side bookkeeping
	cacheOK := true
	for _, a := range append(append([]*model.FeatureAddressType{}, f3.subscriptions...), f3.bindings...) {
		r := ref{peer: 1, ent: vhEntKey(a.Entity)}
		if *a.Device == "A" {
			r.peer = 0
		}
		cacheOK = cacheOK && !gone(r)
	}
	verifrt.Assert("client-side-bookkeeping-of-the-removed-peer-is-cleaned", cacheOK)
	keptB := 0
	for _, a := range f3.subscriptions {
		if *a.Device == "B" {
			keptB++
		}
	}
	wantB := 0
	for _, e := range [][]uint{{1}, {1, 1}} {
		if verifrt.Concrete(verifrt.Bool(fmt.Sprintf("pre.cache.B%v", e))) {
			wantB++
		}
	}
	verifrt.Assert("other-peers-bookkeeping-is-kept", keptB == wantB)
	if oi == 0 {
		verifrt.Assert("one-device-removed-event", nDevEv == 1)
		verifrt.Assert("removed-device-no-longer-resolves", w.L.RemoteDeviceForSki("skiA") == nil && w.L.RemoteDeviceForAddress("A") == nil)
	}
	verifrt.Assert("other-peer-still-resolves", w.L.RemoteDeviceForSki("skiB") == w.rB && w.L.RemoteDeviceForAddress("B") == w.rB)

	// ---- afterwards: all timers fire, a late verdict arrives, data changes on every server feature
	bBefore := len(w.wB.msgs)
	if pendMsg != nil {
		verifrt.Go(func() { f1.ApproveOrDenyWrite(pendMsg, model.ErrorType{ErrorNumber: 0}) })
	}
	verifrt.FireTimers()
	pendingGone := pendPeer == 0 && (oi == 0 || oi == 1)
	if pendingGone {
		verifrt.Reach("pending-write-of-removed-peer")
		data := w.F1.DataCopy(model.FunctionTypeLoadControlLimitListData).(*model.LoadControlLimitListDataType)
		applied := false
		for _, it := range data.LoadControlLimitData {
			if it.LimitId != nil && *it.LimitId == 10 && it.IsLimitActive != nil && *it.IsLimitActive {
				applied = true
			}
		}
		verifrt.Assert("pending-write-of-removed-peer-is-never-applied", !applied)
	}
	if pendPeer == 1 {
		verifrt.Reach("pending-write-of-other-peer")
		out := vhCount(w.wB, bBefore)
		verifrt.Assert("other-peers-pending-write-still-gets-its-outcome", out.okResults+out.errResults == 1)
	}
	bData := len(w.wB.msgs)
	w.F1.SetData(model.FunctionTypeLoadControlLimitListData, vhLimitList(3, true))
	if oi == 0 {
		verifrt.Assert("nothing-is-written-to-the-removed-connection", len(w.wA.msgs) == aAfter)
	}
	nB := 0
	for _, s := range subs {
		if s.peer == 1 && s.cf.Type() == model.FeatureTypeTypeLoadControl { // (the data change below is on F1)
			nB++
		}
	}
	outB := vhCount(w.wB, bData)
	verifrt.Assert("other-peer-is-still-notified", outB.notifies == nB)
	verifrt.Observe("subs", len(sm.subscriptionEntries))
}

func init() {
	verifrt.Register("VH_c10_reconnect", VH_c10_reconnect)
}

// C10 (history): nothing of a removed connection's pending write approvals is inherited by the next
// connection of the same SKI. A write of peer A is approved by a proper subset of the callbacks, times out
// (or not) and A disconnects; A reconnects, is bound again and writes with the same (or another) message
// counter: that write is applied exactly if every callback approves *it*.
func VH_c10_reconnect() {
	verifrt.Scenario("reconnect-after-partially-approved-write")
	w := vhNewWorld(vhWorldOpts{})
	fn := model.FunctionTypeLoadControlLimitListData
	f1 := w.F1.(*FeatureLocal)
	bm := w.L.BindingManager().(*BindingManager)
	w.F1.SetData(fn, vhTwoLimits())
	f1.SetWriteApprovalTimeout(time.Second)
	var got [2][]*api.Message
	for i := 0; i < 2; i++ {
		i := i
		_ = f1.AddWriteApprovalCallback(func(m *api.Message) { got[i] = append(got[i], m) })
	}
	bind := func(r api.DeviceRemoteInterface, id uint64) {
		bm.bindingEntries = append(bm.bindingEntries, &api.BindingEntry{Id: id, ServerFeature: w.F1, ClientFeature: r.FeatureByAddress(vhAddr("A", []uint{1}, 1))})
		vhSetBindingNum(bm, id)
	}
	write := func(r api.DeviceRemoteInterface, ctr uint64, limit uint) {
		item := model.LoadControlLimitDataType{LimitId: util.Ptr(model.LoadControlLimitIdType(limit)), IsLimitActive: util.Ptr(true)}
		cmd := model.CmdType{Function: util.Ptr(fn), Filter: []model.FilterType{*model.NewFilterTypePartial()},
			LoadControlLimitListData: &model.LoadControlLimitListDataType{LoadControlLimitData: []model.LoadControlLimitDataType{item}}}
		h := w.hdr(vhAddr("A", []uint{1}, 1), w.F1.Address(), model.CmdClassifierTypeWrite, true)
		h.MsgCounter = util.Ptr(model.MsgCounterType(ctr))
		vhDeliver(r, model.DatagramType{Header: h, Payload: model.PayloadType{Cmd: []model.CmdType{cmd}}})
		verifrt.RunReadyFIFO()
	}
	active := func(limit uint) bool {
		data, _ := w.F1.DataCopy(fn).(*model.LoadControlLimitListDataType)
		if data == nil {
			return false
		}
		for _, it := range data.LoadControlLimitData {
			if it.LimitId != nil && uint(*it.LimitId) == limit && it.IsLimitActive != nil && *it.IsLimitActive {
				return true
			}
		}
		return false
	}
	approve := func(i int) {
		if n := len(got[i]); n > 0 {
			f1.ApproveOrDenyWrite(got[i][n-1], model.ErrorType{ErrorNumber: 0})
		}
	}

	// ---- first connection: a write approved by none or one of the two callbacks
	bind(w.rA, 1)
	write(w.rA, 500, 10)
	verifrt.Assume(len(got[0]) == 1 && len(got[1]) == 1)
	switch verifrt.Choice("first.approvals", 3) {
	case 1:
		approve(0)
	case 2:
		approve(1)
	}
	if verifrt.Choice("first.timed-out-before-disconnect", 2) == 1 {
		verifrt.FireTimers()
	}
	w.L.RemoveRemoteDeviceConnection("skiA")
	verifrt.FireTimers()
	verifrt.RunReadyFIFO()
	verifrt.Reach("disconnected")
	verifrt.Assert("write-of-the-removed-connection-is-never-applied", !active(10))

	// ---- the same SKI connects again
	w2 := &vhWriter{name: "A2"}
	w.L.SetupRemoteDevice("skiA", w2)
	r2 := w.L.RemoteDeviceForSki("skiA")
	verifrt.Assert("reconnected-device-resolves", r2 != nil)
	if r2 == nil {
		return
	}
	w.announce(r2, "A", false)
	bind(r2, 2)
	ctr := uint64(500 + verifrt.Choice("second.counter-offset", 2))
	m0 := len(w2.msgs)
	write(r2, ctr, 11)
	verifrt.Assume(len(got[0]) == 2 && len(got[1]) == 2)
	ap := verifrt.Choice("second.approvals", 4) // 0 none, 1 first callback, 2 second callback, 3 both
	if ap&1 != 0 {
		approve(0)
	}
	if ap&2 != 0 {
		approve(1)
	}
	verifrt.FireTimers()
	verifrt.RunReadyFIFO()
	verifrt.Reach("second-write-decided")
	out := vhCount(w2, m0)
	if ap == 3 {
		verifrt.Assert("unanimously-approved-write-after-reconnect-is-applied", active(11) && out.okResults == 1 && out.errResults == 0)
	} else {
		verifrt.Assert("approvals-of-the-removed-connection-are-not-inherited", !active(11))
		verifrt.Assert("write-lacking-an-approval-ends-in-one-error-result", out.okResults == 0 && out.errResults == 1)
	}
	verifrt.Observe("applied", active(11))
}
