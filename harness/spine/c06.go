package spine

import (
	"fmt"

	"github.com/enbility/spine-go/api"
	"github.com/enbility/spine-go/model"
	"github.com/enbility/spine-go/util"
	"github.com/enbility/spine-go/verifrt"
)

func init() {
	verifrt.Register("VH_c06_remotetree", VH_c06_remotetree)
}

var vhC06Ents = [][]uint{{1}, {2}, {1, 1}, {3}}

func vhEntKey(e []model.AddressEntityType) string { return fmt.Sprint(e) }

// C06 (inductive step): one discovery notification applied to an arbitrary remote tree.
func VH_c06_remotetree() {
	shapes := []string{"add", "remove", "add+add", "remove+remove", "add+remove", "remove+add", "full"}
	cs := verifrt.ShardChoice("case", len(shapes)*len(vhC06Ents))
	shape, firstEnt := shapes[cs/len(vhC06Ents)], cs%len(vhC06Ents)
	verifrt.Scenario(shape)
	w := vhNewWorld(vhWorldOpts{})
	nmA, nmL := vhAddr("A", []uint{0}, 0), vhAddr("L", []uint{0}, 0)

	// ---- pre-state: A additionally has an arbitrary subset of [2] and [1,1]; B likewise (same numbers)
	extra := func(r api.DeviceRemoteInterface, dev string, tag string) {
		var eis []model.NodeManagementDetailedDiscoveryEntityInformationType
		var fis []model.NodeManagementDetailedDiscoveryFeatureInformationType
		for _, e := range [][]uint{{2}, {1, 1}} {
			if verifrt.Concrete(verifrt.Bool(fmt.Sprintf("pre.%s.has%v", tag, e))) {
				ei := vhEntInfo(dev, e)
				ei.Description.LastStateChange = util.Ptr(model.NetworkManagementStateChangeTypeAdded)
				eis = append(eis, ei)
				fis = append(fis, vhFeatInfo(dev, e, 1, model.FeatureTypeTypeLoadControl, model.RoleTypeClient))
			}
		}
		if len(eis) == 0 {
			return
		}
		dd := &model.NodeManagementDetailedDiscoveryDataType{
			DeviceInformation:  &model.NodeManagementDetailedDiscoveryDeviceInformationType{Description: &model.NetworkManagementDeviceDescriptionDataType{DeviceAddress: &model.DeviceAddressType{Device: util.Ptr(model.AddressDeviceType(dev))}}},
			EntityInformation:  eis[:1],
			FeatureInformation: fis[:1]}
		// one entity per notification (the multi-entry path is what is under test below)
		for i := range eis {
			dd.EntityInformation, dd.FeatureInformation = eis[i:i+1], fis[i:i+1]
			cmd := model.CmdType{Function: util.Ptr(model.FunctionTypeNodeManagementDetailedDiscoveryData), Filter: []model.FilterType{*model.NewFilterTypePartial()}, NodeManagementDetailedDiscoveryData: dd}
			vhDeliver(r, model.DatagramType{Header: w.hdr(vhAddr(dev, []uint{0}, 0), nmL, model.CmdClassifierTypeNotify, false), Payload: model.PayloadType{Cmd: []model.CmdType{cmd}}})
		}
	}
	extra(w.rA, "A", "A")

	// registries and client-side bookkeeping referring to the client feature 1 of every existing entity of A and B
	sm := w.L.SubscriptionManager().(*SubscriptionManager)
	bm := w.L.BindingManager().(*BindingManager)
	f3 := w.F3.(*FeatureLocal)
	type ref struct {
		peer int
		ent  string
		cf   api.FeatureRemoteInterface
	}
	var subs []ref
	id := uint64(0)
	for p := 0; p < 2; p++ {
		r, _, dev := w.peer(p)
		for _, e := range [][]uint{{1}, {2}, {1, 1}} {
			cf := r.FeatureByAddress(vhAddr(dev, e, 1))
			if cf == nil {
				continue
			}
			// [1] of either peer is subscribed on a symbolic choice; the optional entities of A always are
			if len(e) > 1 || e[0] != 1 || verifrt.Concrete(verifrt.Bool(fmt.Sprintf("pre.sub.%s%v", dev, e))) {
				id++
				sm.subscriptionEntries = append(sm.subscriptionEntries, &api.SubscriptionEntry{Id: id, ServerFeature: w.F1, ClientFeature: cf})
				subs = append(subs, ref{p, vhEntKey(NewAddressEntityType(e)), cf})
				f3.subscriptions = append(f3.subscriptions, vhAddr(dev, e, 2))
			}
		}
	}
	vhSetSubscriptionNum(sm, id)
	// one binding (to F1) of either peer's [1].1
	bindPeer := verifrt.Choice("pre.bind", 3) // 0 none, 1 A, 2 B
	if bindPeer > 0 {
		r, _, dev := w.peer(bindPeer - 1)
		vhSetBindingNum(bm, 1)
		bm.bindingEntries = []*api.BindingEntry{{Id: 1, ServerFeature: w.F1, ClientFeature: r.FeatureByAddress(vhAddr(dev, []uint{1}, 1))}}
		f3.bindings = append(f3.bindings, vhAddr(dev, []uint{1}, 2))
	}
	preEnt := map[string]bool{}
	for _, e := range w.rA.Entities() {
		preEnt[vhEntKey(e.Address().Entity)] = true
	}
	preB := len(w.rB.Entities())
	preBFeat := w.rB.FeatureByAddress(vhAddr("B", []uint{1}, 1))
	ev0 := len(w.events)

	// ---- the message
	nEntries := 1
	if len(shape) > 6 {
		nEntries = 2
	}
	type entry struct {
		ent   []uint
		added bool
		feats []model.NodeManagementDetailedDiscoveryFeatureInformationType
	}
	var entries []entry
	var eis []model.NodeManagementDetailedDiscoveryEntityInformationType
	var fis []model.NodeManagementDetailedDiscoveryFeatureInformationType
	kinds := map[string][]bool{"add": {true}, "remove": {false}, "add+add": {true, true}, "remove+remove": {false, false}, "add+remove": {true, false}, "remove+add": {false, true}, "full": {true}}[shape]
	for i := 0; i < nEntries; i++ {
		e := vhC06Ents[firstEnt]
		if i == 1 {
			e = vhC06Ents[verifrt.Choice("msg.entity[1]", len(vhC06Ents))]
			verifrt.Assume(vhEntKey(NewAddressEntityType(e)) != vhEntKey(NewAddressEntityType(entries[0].ent)))
		}
		en := entry{ent: e, added: kinds[i]}
		ei := vhEntInfo("A", e)
		if shape != "full" {
			st := model.NetworkManagementStateChangeTypeRemoved
			if en.added {
				st = model.NetworkManagementStateChangeTypeAdded
			}
			ei.Description.LastStateChange = &st
			// the device part of an announced entity address is optional on the wire
			if !en.added && verifrt.Choice(fmt.Sprintf("msg.entityAddress[%d].device", i), 2) == 0 {
				ei.Description.EntityAddress.Device = nil
			}
		}
		eis = append(eis, ei)
		if en.added {
			nf := verifrt.Choice(fmt.Sprintf("msg.features[%d]", i), verifrt.Param("maxFeatures", 1)+1)
			for k := 0; k < nf; k++ {
				ft := []model.FeatureTypeType{model.FeatureTypeTypeLoadControl, model.FeatureTypeTypeMeasurement}[verifrt.Choice(fmt.Sprintf("msg.ftype[%d][%d]", i, k), 2)]
				role := []model.RoleType{model.RoleTypeClient, model.RoleTypeServer}[verifrt.Choice(fmt.Sprintf("msg.role[%d][%d]", i, k), 2)]
				fi := vhFeatInfo("A", e, uint(k+1), ft, role, model.FunctionTypeLoadControlLimitListData)
				en.feats = append(en.feats, fi)
				fis = append(fis, fi)
			}
		}
		entries = append(entries, en)
	}
	if shape == "full" {
		// a full notification lists everything the peer has: entity 0, and the chosen entity
		eis = append([]model.NodeManagementDetailedDiscoveryEntityInformationType{vhEntInfo("A", []uint{0})}, eis...)
	}
	dd := &model.NodeManagementDetailedDiscoveryDataType{
		DeviceInformation: &model.NodeManagementDetailedDiscoveryDeviceInformationType{Description: &model.NetworkManagementDeviceDescriptionDataType{DeviceAddress: &model.DeviceAddressType{Device: util.Ptr(model.AddressDeviceType("A"))}}},
		EntityInformation: eis, FeatureInformation: fis}
	cmd := model.CmdType{NodeManagementDetailedDiscoveryData: dd}
	if shape != "full" {
		cmd.Function = util.Ptr(model.FunctionTypeNodeManagementDetailedDiscoveryData)
		cmd.Filter = []model.FilterType{*model.NewFilterTypePartial()}
	}
	vhDeliver(w.rA, model.DatagramType{Header: w.hdr(nmA, nmL, model.CmdClassifierTypeNotify, false), Payload: model.PayloadType{Cmd: []model.CmdType{cmd}}})
	verifrt.Reach("notified")

	// ---- reference: apply the entries in order
	want := map[string]bool{}
	for k, v := range preEnt {
		want[k] = v
	}
	addEv, remEv := 0, 0
	removed := map[string]bool{}
	if shape == "full" {
		key := vhEntKey(NewAddressEntityType(entries[0].ent))
		for k := range want {
			if k != vhEntKey(NewAddressEntityType([]uint{0})) && k != key {
				delete(want, k)
				removed[k] = true
				remEv++
			}
		}
		if !preEnt[key] {
			want[key] = true
			addEv++
		}
		switch {
		case addEv > 0 && remEv > 0:
			verifrt.Scenario("full/mixed")
		case addEv > 0:
			verifrt.Scenario("full/adds-only")
		default:
			verifrt.Scenario("full/removes-only")
		}
	} else {
		for _, en := range entries {
			key := vhEntKey(NewAddressEntityType(en.ent))
			if en.added {
				if !want[key] {
					addEv++
				}
				want[key] = true
				delete(removed, key)
			} else {
				if want[key] {
					remEv++
					removed[key] = true
				}
				delete(want, key)
			}
		}
	}
	got := map[string]bool{}
	for _, e := range w.rA.Entities() {
		got[vhEntKey(e.Address().Entity)] = true
	}
	same := len(got) == len(want)
	for k := range want {
		same = same && got[k]
	}
	verifrt.Assert("entity-set-is-the-announced-one", same)
	// features of added entities are exactly the announced ones and resolve by address
	featsOK := true
	for _, en := range entries {
		if !en.added || (shape == "full" && preEnt[vhEntKey(NewAddressEntityType(en.ent))]) {
			continue
		}
		e := w.rA.Entity(NewAddressEntityType(en.ent))
		if e == nil {
			featsOK = false
			continue
		}
		featsOK = featsOK && len(e.Features()) == len(en.feats)
		for _, fi := range en.feats {
			f := w.rA.FeatureByAddress(fi.Description.FeatureAddress)
			featsOK = featsOK && f != nil && f.Type() == *fi.Description.FeatureType && f.Role() == *fi.Description.Role
			if f != nil {
				op, ok := f.Operations()[model.FunctionTypeLoadControlLimitListData]
				featsOK = featsOK && ok && op.Read() && op.Write()
			}
		}
	}
	verifrt.Assert("features-of-added-entities-are-the-announced-ones", featsOK)
	// events
	ga, gr := 0, 0
	for _, e := range w.events[ev0:] {
		if e.EventType == api.EventTypeEntityChange && e.ChangeType == api.ElementChangeAdd {
			ga++
		}
		if e.EventType == api.EventTypeEntityChange && e.ChangeType == api.ElementChangeRemove {
			gr++
		}
	}
	verifrt.Assert("one-added-event-per-entity-that-appeared", ga == addEv)
	verifrt.Assert("one-removed-event-per-entity-that-disappeared", gr == remEv)
	// cascade: exactly the entries of (A, removed entity) are gone
	wantSubs := 0
	subsOK := true
	for _, s := range subs {
		gone := s.peer == 0 && removed[s.ent]
		if !gone {
			wantSubs++
		}
		present := false
		for _, e := range sm.subscriptionEntries {
			if e.ClientFeature == s.cf {
				present = true
			}
		}
		subsOK = subsOK && present == !gone
	}
	verifrt.Assert("removal-cascades-to-exactly-that-entitys-subscriptions", subsOK && len(sm.subscriptionEntries) == wantSubs)
	wantBind := 0
	if bindPeer > 0 && !(bindPeer == 1 && removed[vhEntKey(NewAddressEntityType([]uint{1}))]) {
		wantBind = 1
	}
	verifrt.Assert("removal-cascades-to-exactly-that-entitys-bindings", len(bm.bindingEntries) == wantBind)
	cacheOK := true
	for _, a := range f3.subscriptions {
		cacheOK = cacheOK && !(*a.Device == "A" && removed[vhEntKey(a.Entity)])
	}
	nCache := 0
	for _, s := range subs {
		if !(s.peer == 0 && removed[s.ent]) {
			nCache++
		}
	}
	verifrt.Assert("removal-cleans-exactly-that-entitys-client-side-references", cacheOK && len(f3.subscriptions) == nCache)
	verifrt.Assert("other-peer-untouched", len(w.rB.Entities()) == preB && w.rB.FeatureByAddress(vhAddr("B", []uint{1}, 1)) == preBFeat)
	verifrt.Observe("entities", len(got))
}
