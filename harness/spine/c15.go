package spine

import (
	"fmt"

	"github.com/enbility/spine-go/api"
	"github.com/enbility/spine-go/verifrt"
)

func init() {
	verifrt.Register("VH_c15_events", VH_c15_events)
	verifrt.Register("VH_c15_window", VH_c15_window)
}

type vhHandler struct {
	id     int
	log    *[]string
	bus    *events
	action int // 0 none, 1 unsubscribe self, 2 subscribe handler 2 (application), 3 publish a second event (application level only)
	level  api.EventHandlerLevel
	peers  []*vhHandler
}

func (h *vhHandler) HandleEvent(p api.EventPayload) {
	*h.log = append(*h.log, fmt.Sprintf("h%d:%s", h.id, p.Ski))
	switch h.action {
	case 1:
		_ = h.bus.unsubscribe(h.level, h)
	case 2:
		_ = h.bus.Subscribe(h.peers[2])
	case 3:
		if p.Ski == "first" {
			h.bus.Publish(api.EventPayload{Ski: "second"})
		}
	}
	h.action = 0
}

func vhC15(window bool) {
	ops := []string{"subscribe", "unsubscribe", "publish"}
	oi := verifrt.ShardChoice("op", len(ops))
	verifrt.Scenario(ops[oi])
	bus := &events{}
	var log []string
	hs := make([]*vhHandler, 3)
	for i := range hs {
		hs[i] = &vhHandler{id: i, log: &log, bus: bus}
	}
	for _, h := range hs {
		h.peers = hs
	}
	levels := []api.EventHandlerLevel{api.EventHandlerLevelCore, api.EventHandlerLevelApplication}
	// ---- arbitrary handler list without duplicates: each (handler, level) pair present or not, in a symbolic order of insertion
	type item struct{ h, l int }
	var pre []item
	for i := 0; i < 3; i++ {
		for l := 0; l < 2; l++ {
			if verifrt.Concrete(verifrt.Bool(fmt.Sprintf("pre.has[h%d][%d]", i, l))) {
				pre = append(pre, item{i, l})
			}
		}
	}
	verifrt.Assume(len(pre) <= 3)
	if len(pre) >= 2 && verifrt.Concrete(verifrt.Bool("pre.swapped")) {
		pre[0], pre[1] = pre[1], pre[0]
	}
	for _, it := range pre {
		bus.handlers = append(bus.handlers, eventHandlerItem{Level: levels[it.l], Handler: hs[it.h]})
		hs[it.h].level = levels[it.l]
	}
	has := func(list []eventHandlerItem, h, l int) int {
		n := 0
		for _, x := range list {
			if x.Handler == api.EventHandlerInterface(hs[h]) && x.Level == levels[l] {
				n++
			}
		}
		return n
	}
	switch ops[oi] {
	case "subscribe", "unsubscribe":
		h, l := verifrt.Choice("handler", 3), verifrt.Choice("level", 2)
		before := append([]eventHandlerItem{}, bus.handlers...)
		if ops[oi] == "subscribe" {
			_ = bus.subscribe(levels[l], hs[h])
		} else {
			_ = bus.unsubscribe(levels[l], hs[h])
		}
		verifrt.Reach("changed")
		okSet := true
		for i := 0; i < 3; i++ {
			for k := 0; k < 2; k++ {
				want := has(before, i, k)
				if i == h && k == l {
					want = 1
					if ops[oi] == "unsubscribe" {
						want = 0
					}
				}
				okSet = okSet && has(bus.handlers, i, k) == want
			}
		}
		verifrt.Assert("handler-list-has-set-semantics", okSet)
	case "publish":
		// one handler may act while handling
		actor := verifrt.Choice("actor", 4) // 3 = nobody
		if actor < 3 {
			hs[actor].action = verifrt.Choice("action", 3) + 1
			if hs[actor].action == 3 {
				// publishing from inside a handler is an application-level scenario (core handlers are the stack's own)
				verifrt.Assume(has(bus.handlers, actor, 0) == 0)
			}
		}
		before := append([]eventHandlerItem{}, bus.handlers...)
		if window {
			verifrt.PreemptOn()
		}
		bus.Publish(api.EventPayload{Ski: "first"})
		returned := len(log)
		verifrt.WaitIdle()
		verifrt.PreemptOff()
		verifrt.Reach("published")
		verifrt.Assert("no-thread-left-blocked", verifrt.BlockedThreads() == 0)
		once, coreFirst, coreSync := true, true, true
		for i := 0; i < 3; i++ {
			n := 0
			for _, e := range log {
				if e == fmt.Sprintf("h%d:first", i) {
					n++
				}
			}
			want := has(before, i, 0) + has(before, i, 1)
			once = once && n == want
		}
		verifrt.Assert("every-subscribed-handler-gets-the-event-exactly-once-per-subscription", once)
		// all core invocations of the event precede every application invocation and Publish's return
		lastCore, firstApp := -1, len(log)
		for idx, e := range log {
			for i := 0; i < 3; i++ {
				if e != fmt.Sprintf("h%d:first", i) {
					continue
				}
				if has(before, i, 0) == 1 && has(before, i, 1) == 0 {
					lastCore = idx
				}
				if has(before, i, 1) == 1 && has(before, i, 0) == 0 && idx < firstApp {
					firstApp = idx
				}
			}
		}
		coreFirst = lastCore < firstApp
		coreSync = lastCore < returned
		verifrt.Assert("core-handlers-finish-before-any-application-handler-runs", coreFirst)
		verifrt.Assert("core-handlers-finish-before-publish-returns", coreSync)
		verifrt.Observe("log", len(log))
	}
}

func VH_c15_events() { vhC15(false) }

// with one pre-emption (at the go statements and lock acquisitions of Publish)
func VH_c15_window() { vhC15(true) }

func init() {
	verifrt.Register("VH_c15_concurrent", VH_c15_concurrent)
}

// C15 (schedules): two goroutines change the handler list at the same time - both subscribe the same
// handler, or one subscribes while the other unsubscribes another handler, or both unsubscribe. In every
// interleaving within the pre-emption bound the list keeps set semantics and a subsequent event reaches
// every subscribed handler exactly once.
func VH_c15_concurrent() {
	scen := []string{"subscribe-same || subscribe-same", "subscribe || subscribe-other", "subscribe || unsubscribe-other", "unsubscribe-same || unsubscribe-same", "subscribe-same || publish"}
	si := verifrt.ShardChoice("case", len(scen)*2)
	lv := []api.EventHandlerLevel{api.EventHandlerLevelCore, api.EventHandlerLevelApplication}[si%2]
	si /= 2
	verifrt.Scenario(scen[si])
	bus := &events{}
	var log []string
	hs := make([]*vhHandler, 3)
	for i := range hs {
		hs[i] = &vhHandler{id: i, log: &log, bus: bus, level: lv}
	}
	// handler 1 is subscribed already; handler 0 too in the unsubscribe scenario
	_ = bus.subscribe(lv, hs[1])
	if si == 3 {
		_ = bus.subscribe(lv, hs[0])
	}
	var op0, op1 func()
	switch si {
	case 0:
		op0 = func() { _ = bus.subscribe(lv, hs[0]) }
		op1 = func() { _ = bus.subscribe(lv, hs[0]) }
	case 1:
		op0 = func() { _ = bus.subscribe(lv, hs[0]) }
		op1 = func() { _ = bus.subscribe(lv, hs[2]) }
	case 2:
		op0 = func() { _ = bus.subscribe(lv, hs[0]) }
		op1 = func() { _ = bus.unsubscribe(lv, hs[1]) }
	case 3:
		op0 = func() { _ = bus.unsubscribe(lv, hs[0]) }
		op1 = func() { _ = bus.unsubscribe(lv, hs[0]) }
	case 4:
		op0 = func() { _ = bus.subscribe(lv, hs[0]) }
		op1 = func() { bus.Publish(api.EventPayload{Ski: "early"}) }
	}
	verifrt.Go(op0)
	verifrt.Go(op1)
	verifrt.PreemptAtUnlock(true)
	verifrt.PreemptOn()
	verifrt.WaitIdle()
	verifrt.PreemptOff()
	verifrt.PreemptAtUnlock(false)
	verifrt.Reach("both-done")
	verifrt.Assert("no-thread-left-blocked", verifrt.BlockedThreads() == 0)
	want := [][]int{{1, 1, 0}, {1, 1, 1}, {1, 0, 0}, {0, 1, 0}, {1, 1, 0}}[si]
	count := func(i int) int {
		n := 0
		for _, it := range bus.handlers {
			if it.Handler == api.EventHandlerInterface(hs[i]) && it.Level == lv {
				n++
			}
		}
		return n
	}
	set := true
	for i := range hs {
		set = set && count(i) == want[i]
	}
	verifrt.Assert("handler-list-has-set-semantics", set)
	log = nil
	bus.Publish(api.EventPayload{Ski: "first"})
	verifrt.WaitIdle()
	once := true
	for i := range hs {
		n := 0
		for _, e := range log {
			if e == fmt.Sprintf("h%d:first", i) {
				n++
			}
		}
		once = once && n == want[i]
	}
	verifrt.Assert("every-subscribed-handler-gets-the-event-exactly-once", once)
	verifrt.Observe("handlers", len(bus.handlers))
}
