package spine

import (
	"fmt"

	"github.com/enbility/spine-go/api"
	"github.com/enbility/spine-go/model"
	"github.com/enbility/spine-go/util"
	"github.com/enbility/spine-go/verifrt"
)

func init() {
	verifrt.Register("VH_c01_response", VH_c01_response)
}

var vhClassifiers = []model.CmdClassifierType{model.CmdClassifierTypeRead, model.CmdClassifierTypeReply, model.CmdClassifierTypeNotify, model.CmdClassifierTypeWrite, model.CmdClassifierTypeCall, model.CmdClassifierTypeResult}

// C01: one well-formed inbound datagram; the replies and results on both connections must be exactly
// what the classifier table of DESIGN.md A.2 prescribes, correctly referenced and addressed.
func VH_c01_response() {
	cs := verifrt.ShardChoice("case", 12)
	p, cl := cs/6, vhClassifiers[cs%6]
	w := vhNewWorld(vhWorldOpts{})
	// A's LoadControl client is bound to F1
	bm := w.L.BindingManager().(*BindingManager)
	vhSetBindingNum(bm, 1)
	bm.bindingEntries = []*api.BindingEntry{{Id: 1, ServerFeature: w.F1, ClientFeature: w.rA.FeatureByAddress(vhAddr("A", []uint{1}, 1))}}
	w.F1.SetData(model.FunctionTypeLoadControlLimitListData, vhLimitList(1, false))
	w.F2.SetData(model.FunctionTypeMeasurementListData, &model.MeasurementListDataType{MeasurementData: []model.MeasurementDataType{{MeasurementId: util.Ptr(model.MeasurementIdType(3))}}})

	r, wr, dev := w.peer(p)
	_, wo, _ := w.peer(1 - p)

	// ---- source: one of the announced features of the sender
	type srcT struct {
		ent  []uint
		feat uint
		typ  model.FeatureTypeType
	}
	srcs := []srcT{{[]uint{0}, 0, model.FeatureTypeTypeNodeManagement}, {[]uint{1}, 1, model.FeatureTypeTypeLoadControl}, {[]uint{1}, 2, model.FeatureTypeTypeLoadControl}, {[]uint{1}, 3, model.FeatureTypeTypeMeasurement}}
	src := srcs[verifrt.Choice("source", len(srcs))]
	srcAddr := vhAddr(dev, src.ent, src.feat)

	// ---- destination
	type dstT struct {
		name string
		f    api.FeatureLocalInterface
		addr *model.FeatureAddressType
	}
	nm := w.L.FeatureByAddress(vhAddr("L", []uint{0}, 0))
	dsts := []dstT{{"nodemanagement", nm, nm.Address()}, {"F1-server", w.F1, w.F1.Address()}, {"F2-server", w.F2, w.F2.Address()}, {"F3-client", w.F3, w.F3.Address()},
		{"unknown-entity", nil, vhAddr("L", []uint{5}, 1)}, {"unknown-feature", nil, vhAddr("L", []uint{1}, 9)}}
	dst := dsts[verifrt.Choice("destination", len(dsts))]
	dstAddr := &model.FeatureAddressType{Entity: dst.addr.Entity, Feature: dst.addr.Feature}
	if verifrt.Concrete(verifrt.Bool("destination.device-given")) {
		dstAddr.Device = util.Ptr(model.AddressDeviceType("L"))
	}

	// ---- payload
	pk := verifrt.Choice("payload", 4)
	var cmd model.CmdType
	var fn model.FunctionType
	written := verifrt.Uint("id")
	verifrt.Assume(written <= 9)
	switch pk {
	case 0:
		fn = model.FunctionTypeLoadControlLimitListData
		cmd = model.CmdType{LoadControlLimitListData: vhLimitList(written, true)}
	case 1:
		fn = model.FunctionTypeMeasurementListData
		cmd = model.CmdType{MeasurementListData: &model.MeasurementListDataType{MeasurementData: []model.MeasurementDataType{{MeasurementId: util.Ptr(model.MeasurementIdType(written))}}}}
	case 2:
		fn = model.FunctionTypeNodeManagementDetailedDiscoveryData
		cmd = model.CmdType{NodeManagementDetailedDiscoveryData: &model.NodeManagementDetailedDiscoveryDataType{}}
	case 3:
		fn = model.FunctionTypeNodeManagementUseCaseData
		cmd = model.CmdType{NodeManagementUseCaseData: &model.NodeManagementUseCaseDataType{}}
	}
	if cl == model.CmdClassifierTypeResult {
		en := verifrt.Uint("errorNumber")
		verifrt.Assume(en <= 9)
		cmd = model.CmdType{ResultData: &model.ResultDataType{ErrorNumber: util.Ptr(model.ErrorNumberType(en))}}
	}
	// discovery / use-case payloads are looked at here only as reads of node management (the rest is C06 / C20)
	if pk >= 2 && cl != model.CmdClassifierTypeResult {
		verifrt.Assume(cl == model.CmdClassifierTypeRead || dst.name != "nodemanagement")
	}
	ackSel := verifrt.Choice("ack", 3)
	ctr := verifrt.U64("msgCounter")
	h := model.HeaderType{AddressSource: srcAddr, AddressDestination: dstAddr, MsgCounter: util.Ptr(model.MsgCounterType(ctr)), CmdClassifier: &cl}
	switch ackSel {
	case 1:
		h.AckRequest = util.Ptr(false)
	case 2:
		h.AckRequest = util.Ptr(true)
	}
	if cl == model.CmdClassifierTypeReply || cl == model.CmdClassifierTypeResult {
		h.MsgCounterReference = util.Ptr(model.MsgCounterType(verifrt.U64("msgCounterReference")))
	}
	verifrt.Scenario(fmt.Sprintf("%s/to-%s", cl, dst.name))

	// ---- reference table
	registered := func(t model.FeatureTypeType, f model.FunctionType) bool {
		switch t {
		case model.FeatureTypeTypeLoadControl:
			return f == model.FunctionTypeLoadControlLimitListData
		case model.FeatureTypeTypeMeasurement:
			return f == model.FunctionTypeMeasurementListData
		case model.FeatureTypeTypeNodeManagement:
			return f == model.FunctionTypeNodeManagementDetailedDiscoveryData || f == model.FunctionTypeNodeManagementUseCaseData
		}
		return false
	}
	ack := ackSel == 2
	wantReply, wantOK, wantErr := 0, 0, 0
	okIfAck := func() {
		if ack {
			wantOK = 1
		}
	}
	var before any
	switch {
	case cl == model.CmdClassifierTypeResult:
		// never any result in answer to a result
	case dst.f == nil:
		wantErr = 1
	case cl == model.CmdClassifierTypeRead:
		if dst.f.Role() != model.RoleTypeClient && registered(dst.f.Type(), fn) {
			wantReply = 1
			if dst.name != "nodemanagement" { // node management replies are assembled, not stored (C07, C20)
				before = verifrt.Freeze(dst.f.DataCopy(fn))
			}
		} else {
			wantErr = 1
		}
	case cl == model.CmdClassifierTypeReply || cl == model.CmdClassifierTypeNotify:
		if dst.name != "nodemanagement" && registered(src.typ, fn) {
			okIfAck()
		} else {
			wantErr = 1
		}
	case cl == model.CmdClassifierTypeWrite:
		if dst.f == w.F1 && fn == model.FunctionTypeLoadControlLimitListData && p == 0 && src.feat == 1 && src.ent[0] == 1 {
			okIfAck()
		} else {
			wantErr = 1
		}
	case cl == model.CmdClassifierTypeCall:
		wantErr = 1
	}

	w0, o0 := len(wr.msgs), len(wo.msgs)
	vhDeliver(r, model.DatagramType{Header: h, Payload: model.PayloadType{Cmd: []model.CmdType{cmd}}})
	verifrt.Reach("delivered")
	out := vhCount(wr, w0)
	oth := vhCount(wo, o0)

	verifrt.Assert("exactly-the-prescribed-replies", out.replies == wantReply)
	verifrt.Assert("exactly-the-prescribed-success-results", out.okResults == wantOK)
	verifrt.Assert("exactly-the-prescribed-error-results", out.errResults == wantErr)
	verifrt.Assert("no-reply-or-result-on-another-connection", oth.replies == 0 && oth.results == 0)
	if cl == model.CmdClassifierTypeResult {
		verifrt.Assert("never-a-result-in-answer-to-a-result", out.results == 0)
	}
	// ---- addressing of every response
	for _, d := range out.dgs {
		if d.Header.CmdClassifier == nil || (*d.Header.CmdClassifier != model.CmdClassifierTypeReply && *d.Header.CmdClassifier != model.CmdClassifierTypeResult) {
			continue
		}
		hh := d.Header
		verifrt.Assert("response-references-the-request-counter", hh.MsgCounterReference != nil && verifrt.Concrete(uint64(*hh.MsgCounterReference) == ctr))
		verifrt.Assert("response-addressed-to-the-request-source", hh.AddressDestination != nil && verifrt.Concrete(verifrt.DeepEq(hh.AddressDestination, srcAddr)))
		srcOK := hh.AddressSource != nil && hh.AddressSource.Device != nil && *hh.AddressSource.Device == "L" &&
			verifrt.Concrete(verifrt.DeepEq(hh.AddressSource.Entity, dst.addr.Entity)) && verifrt.Concrete(verifrt.DeepEq(hh.AddressSource.Feature, dst.addr.Feature))
		if dst.f == nil && dstAddr.Device == nil {
			// unknown destination given without device part: the response can only echo what was addressed
			srcOK = hh.AddressSource != nil && verifrt.Concrete(verifrt.DeepEq(hh.AddressSource.Entity, dst.addr.Entity)) && verifrt.Concrete(verifrt.DeepEq(hh.AddressSource.Feature, dst.addr.Feature))
		}
		verifrt.Assert("response-names-the-addressed-local-feature", srcOK)
		if *hh.CmdClassifier == model.CmdClassifierTypeReply && before != nil {
			cd, err := d.Payload.Cmd[0].Data()
			verifrt.Assert("reply-carries-the-current-data", err == nil && cd.Function != nil && *cd.Function == fn && verifrt.Concrete(verifrt.DeepEq(cd.Value, before)))
		}
	}
	verifrt.Observe("replies", out.replies)
	verifrt.Observe("ok", out.okResults)
	verifrt.Observe("err", out.errResults)
}
