package spine

import (
	"fmt"
	"time"

	"github.com/enbility/spine-go/api"
	"github.com/enbility/spine-go/model"
	"github.com/enbility/spine-go/verifrt"
)

func init() {
	verifrt.Register("VH_c16_heartbeat", VH_c16_heartbeat)
	verifrt.Register("VH_c16_race", VH_c16_race)
}

var vhHBTimeouts = []time.Duration{100 * time.Millisecond, time.Second, 2 * time.Second, 2100 * time.Millisecond, 4 * time.Second, 60 * time.Second}

type vhHB struct {
	w  *vhWorld
	e  *EntityLocal
	f  api.FeatureLocalInterface
	n0 int
}

func vhHeartbeatWorld(timeout time.Duration) *vhHB {
	w := vhNewWorld(vhWorldOpts{onlyA: true, noEvents: true})
	e := NewEntityLocal(w.L, model.EntityTypeTypeCEM, NewAddressEntityType([]uint{3}), timeout)
	f := e.GetOrAddFeature(model.FeatureTypeTypeDeviceDiagnosis, model.RoleTypeServer)
	w.L.AddEntity(e)
	sm := w.L.SubscriptionManager().(*SubscriptionManager)
	vhSetSubscriptionNum(sm, 1)
	sm.subscriptionEntries = []*api.SubscriptionEntry{{Id: 1, ServerFeature: f, ClientFeature: w.rA.FeatureByAddress(vhAddr("A", []uint{1}, 1))}}
	return &vhHB{w: w, e: e, f: f, n0: len(w.wA.msgs)}
}

func (h *vhHB) counter() (uint64, bool) {
	d, _ := h.f.DataCopy(model.FunctionTypeDeviceDiagnosisHeartbeatData).(*model.DeviceDiagnosisHeartbeatDataType)
	if d == nil || d.HeartbeatCounter == nil {
		return 0, false
	}
	return *d.HeartbeatCounter, true
}

func (h *vhHB) notifies() int { return vhCount(h.w.wA, h.n0).notifies }

// one tick delivered to every ticker, then everything runs until idle; returns the number of refreshes it caused
func (h *vhHB) tick() int {
	before := h.notifies()
	verifrt.Tick()
	verifrt.WaitIdle()
	return h.notifies() - before
}

// C16: the heartbeat of a local entity (sequential histories; ticks delivered by the harness).
func VH_c16_heartbeat() {
	scen := []string{"ticks", "restart", "stop", "remove-entity", "stop-start", "restart-twice-at-once", "remove-entity-again-after-restart"}
	cs := verifrt.ShardChoice("case", len(vhHBTimeouts)*len(scen))
	timeout, sc := vhHBTimeouts[cs/len(scen)], scen[cs%len(scen)]
	verifrt.Scenario(fmt.Sprintf("%s/timeout=%v", sc, timeout))
	h := vhHeartbeatWorld(timeout)
	hm := h.e.HeartbeatManager()
	// announcing the heartbeat function starts the heartbeat
	h.f.AddFunctionType(model.FunctionTypeDeviceDiagnosisHeartbeatData, true, false)
	verifrt.WaitIdle()
	verifrt.Reach("started")
	verifrt.Assert("announcing-the-function-starts-the-heartbeat", hm.IsHeartbeatRunning())
	c0, ok0 := h.counter()
	verifrt.Assert("initial-heartbeat-data-is-set-and-notified", ok0 && h.notifies() == 1)
	verifrt.Assert("one-ticker-with-a-positive-period-not-above-the-timeout",
		verifrt.TickerCount() == 1 && verifrt.TickerPeriod(0) > 0 && verifrt.TickerPeriod(0) <= int64(timeout))
	last := c0
	refresh := func(label string, want int) {
		got := h.tick()
		verifrt.Assert(label, got == want)
		if c, ok := h.counter(); ok && got > 0 {
			verifrt.Assert("heartbeat-counter-strictly-increases", c > last)
			last = c
		}
	}
	refresh("each-tick-refreshes-and-notifies-exactly-once", 1)
	refresh("each-tick-refreshes-and-notifies-exactly-once", 1)
	// a ticker that is re-armed after a refresh fires one period after the *end* of that refresh: with a
	// refresh (notifying the subscribers) that takes any time up to one second the distance between two
	// refreshes must still not exceed the announced timeout
	if n := verifrt.TickerResetCount(); n > 0 {
		took := verifrt.I64("refresh-took-ns")
		verifrt.Assume(verifrt.All(took > 0, took <= int64(time.Second)))
		within := true
		for i := 0; i < n; i++ {
			within = within && verifrt.Concrete(verifrt.TickerResetPeriod(i)+took <= int64(timeout))
		}
		verifrt.Assert("refresh-period-does-not-exceed-the-announced-timeout", within)
	}
	switch sc {
	case "restart":
		_ = hm.StartHeartbeat()
		verifrt.WaitIdle()
		verifrt.Assert("still-running-after-restart", hm.IsHeartbeatRunning())
		refresh("restart-leaves-exactly-one-heartbeat-stream", 1)
		refresh("restart-leaves-exactly-one-heartbeat-stream", 1)
	case "restart-twice-at-once":
		// the second start arrives before the goroutine of the first has reached its select
		_ = hm.StartHeartbeat()
		_ = hm.StartHeartbeat()
		verifrt.WaitIdle()
		verifrt.Assert("still-running-after-restart", hm.IsHeartbeatRunning())
		refresh("restart-leaves-exactly-one-heartbeat-stream", 1)
		refresh("restart-leaves-exactly-one-heartbeat-stream", 1)
	case "stop", "remove-entity", "stop-start", "remove-entity-again-after-restart":
		if sc == "remove-entity-again-after-restart" {
			// the application still holds the removed entity, starts its heartbeat again and removes it once more
			h.w.L.RemoveEntity(h.e)
			_ = hm.StartHeartbeat()
			verifrt.WaitIdle()
			verifrt.Assert("running-again-after-start", hm.IsHeartbeatRunning())
		}
		if sc == "remove-entity" || sc == "remove-entity-again-after-restart" {
			h.w.L.RemoveEntity(h.e)
		} else {
			hm.StopHeartbeat()
		}
		verifrt.Assert("not-running-after-stop", !hm.IsHeartbeatRunning())
		n1 := h.tick()
		verifrt.Assert("at-most-one-refresh-after-stop", n1 <= 1)
		cA, _ := h.counter()
		n2 := h.tick() + h.tick()
		cB, _ := h.counter()
		verifrt.Assert("data-stays-unchanged-after-stop", n2 == 0 && cA == cB)
		hm.StopHeartbeat() // stopping twice is harmless
		if sc == "stop-start" {
			_ = hm.StartHeartbeat()
			verifrt.WaitIdle()
			verifrt.Assert("running-again-after-start", hm.IsHeartbeatRunning())
			last = cB
			refresh("restarted-heartbeat-refreshes-once-per-tick", 1)
		}
	}
	verifrt.Assert("no-thread-left-blocked-on-a-lock", true)
	verifrt.Observe("refreshes", h.notifies())
}

// start and stop from two goroutines at once (pre-emption at lock acquisitions and channel operations)
func VH_c16_race() {
	scen := []string{"stop-stop", "start-stop", "start-start", "restart-during-refresh"}
	si := verifrt.ShardChoice("case", len(scen))
	verifrt.Scenario(scen[si])
	h := vhHeartbeatWorld(4 * time.Second)
	hm := h.e.HeartbeatManager()
	h.f.AddFunctionType(model.FunctionTypeDeviceDiagnosisHeartbeatData, true, false)
	verifrt.WaitIdle()
	if scen[si] == "restart-during-refresh" {
		// a tick is due and a restart arrives while the refresh it causes is in flight
		verifrt.Tick()
		verifrt.Go(func() { _ = hm.StartHeartbeat() })
		verifrt.PreemptOn()
		verifrt.WaitIdle()
		verifrt.PreemptOff()
		verifrt.Reach("both-done")
		verifrt.Assert("still-running-after-restart", hm.IsHeartbeatRunning())
		verifrt.Assert("restart-leaves-exactly-one-heartbeat-stream", h.tick() == 1)
		verifrt.Assert("restart-leaves-exactly-one-heartbeat-stream", h.tick() == 1)
		hm.StopHeartbeat()
		verifrt.WaitIdle()
		verifrt.Assert("after-a-final-stop-no-stream-keeps-refreshing", h.tick()+h.tick() <= 1 && !hm.IsHeartbeatRunning())
		return
	}
	ops := [][2]int{{0, 0}, {1, 0}, {1, 1}}[si]
	for _, op := range ops {
		op := op
		verifrt.Go(func() {
			if op == 0 {
				hm.StopHeartbeat()
			} else {
				_ = hm.StartHeartbeat()
			}
		})
	}
	// two starts race between the stop of the old stream and the installation of the new channel:
	// that window opens at a mutex release, so releases are pre-emption points here
	verifrt.PreemptAtUnlock(true)
	verifrt.PreemptOn()
	verifrt.WaitIdle()
	verifrt.PreemptOff()
	verifrt.PreemptAtUnlock(false)
	verifrt.Reach("both-done")
	// whatever happened, a final stop must end every stream
	hm.StopHeartbeat()
	verifrt.WaitIdle()
	n := h.tick() + h.tick()
	verifrt.Assert("after-a-final-stop-no-stream-keeps-refreshing", n <= 1 && !hm.IsHeartbeatRunning())
}
