package spine

import (
	"fmt"

	"github.com/enbility/spine-go/api"
	"github.com/enbility/spine-go/model"
	"github.com/enbility/spine-go/util"
	"github.com/enbility/spine-go/verifrt"
)

func init() {
	verifrt.Register("VH_c08_subscriptions", VH_c08_subscriptions)
}

// one candidate registry entry of the small world
type vhPair struct {
	peer   int // 0 = A, 1 = B
	server api.FeatureLocalInterface
	client api.FeatureRemoteInterface
	has    bool
	id     uint64
}

// vhRegistryPairs: the type-compatible (server feature, client feature) pairs of the small world.
func (w *vhWorld) registryPairs() []*vhPair {
	var out []*vhPair
	for p := 0; p < 2; p++ {
		r, _, dev := w.peer(p)
		lc := r.FeatureByAddress(vhAddr(dev, []uint{1}, 1)) // LoadControl client
		mc := r.FeatureByAddress(vhAddr(dev, []uint{1}, 3)) // Measurement client
		out = append(out, &vhPair{peer: p, server: w.F1, client: lc})
		out = append(out, &vhPair{peer: p, server: w.F2, client: mc})
		if w.F4 != nil {
			out = append(out, &vhPair{peer: p, server: w.F4, client: lc})
		}
	}
	return out
}

// symbolic subset with arbitrary distinct ids not above the manager's counter
func vhChooseRegistry(prefix string, pairs []*vhPair, maxEntries int, preset int) (counter uint64) {
	counter = verifrt.U64(prefix + ".counter")
	verifrt.Assume(counter < 1000000)
	n := 0
	for i, p := range pairs {
		if i < 2 && preset >= 0 {
			p.has = preset&(1<<uint(i)) != 0 // the first two membership bits come from the sharded case number
		} else {
			p.has = verifrt.Concrete(verifrt.Bool(fmt.Sprintf("%s.has[%d]", prefix, i)))
		}
		if p.has {
			n++
			p.id = verifrt.U64(fmt.Sprintf("%s.id[%d]", prefix, i))
			verifrt.Assume(verifrt.All(p.id >= 1, p.id <= counter))
			for _, q := range pairs[:i] {
				if q.has {
					verifrt.Assume(p.id != q.id)
				}
			}
		}
	}
	verifrt.Assume(n <= maxEntries)
	return counter
}

func vhSameFeatureAddr(a, b *model.FeatureAddressType) bool { return verifrt.DeepEq(a, b) }

// C08: subscription registry (inductive step) and notification fan-out.
func VH_c08_subscriptions() {
	cs := verifrt.ShardChoice("case", 4*2*4)
	op, peerSel, preset := cs/8, (cs/4)%2, cs%4
	w := vhNewWorld(vhWorldOpts{secondEntity: true})
	sm := w.L.SubscriptionManager().(*SubscriptionManager)
	pairs := w.registryPairs()
	counter := vhChooseRegistry("reg", pairs, verifrt.Param("maxEntries", 4), preset)
	vhSetSubscriptionNum(sm, counter)
	for _, p := range pairs {
		if p.has {
			sm.subscriptionEntries = append(sm.subscriptionEntries, &api.SubscriptionEntry{Id: p.id, ServerFeature: p.server, ClientFeature: p.client})
		}
	}
	pre := append([]*api.SubscriptionEntry{}, sm.subscriptionEntries...)
	a0, b0 := len(w.wA.msgs), len(w.wB.msgs)
	ev0 := len(w.events)

	hasEntry := func(list []*api.SubscriptionEntry, s api.FeatureLocalInterface, c api.FeatureRemoteInterface) bool {
		for _, e := range list {
			if e.ServerFeature == s && e.ClientFeature == c {
				return true
			}
		}
		return false
	}

	switch op {
	case 0, 1:
		// ---- a subscribe (0) or unsubscribe (1) call from peer p with symbolic addresses
		name := []string{"subscribe-call", "unsubscribe-call"}[op]
		p := peerSel
		r, wr, dev := w.peer(p)
		_, wo, _ := w.peer(1 - p)
		o0 := len(wo.msgs)
		w0 := len(wr.msgs)
		srvEnt, srvFeat := verifrt.Uint("srv.entity"), verifrt.Uint("srv.feature")
		cliFeat := verifrt.Uint("cli.feature")
		verifrt.Assume(verifrt.All(srvEnt <= 3, srvFeat <= 4, cliFeat <= 4))
		srv := &model.FeatureAddressType{Entity: []model.AddressEntityType{model.AddressEntityType(srvEnt)}, Feature: util.Ptr(model.AddressFeatureType(srvFeat))}
		if verifrt.Concrete(verifrt.Bool("srv.device-given")) {
			srv.Device = util.Ptr(model.AddressDeviceType("L"))
		}
		cli := &model.FeatureAddressType{Entity: []model.AddressEntityType{1}, Feature: util.Ptr(model.AddressFeatureType(cliFeat))}
		if verifrt.Concrete(verifrt.Bool("cli.device-given")) {
			cli.Device = util.Ptr(model.AddressDeviceType(dev))
		}
		ftype := model.FeatureTypeType(verifrt.Str("serverFeatureType", string(model.FeatureTypeTypeLoadControl), string(model.FeatureTypeTypeMeasurement), string(model.FeatureTypeTypeGeneric), string(model.FeatureTypeTypeSetpoint)))
		ack := verifrt.Concrete(verifrt.Bool("ack"))
		verifrt.Scenario(name)

		// reference: which local / remote features are addressed
		var srvF api.FeatureLocalInterface
		for _, f := range append(w.localServers(), w.F3) {
			fa := f.Address()
			if verifrt.Concrete(verifrt.All(srvEnt == uint(fa.Entity[0]), srvFeat == uint(*fa.Feature))) {
				srvF = f
			}
		}
		var cliF api.FeatureRemoteInterface
		for _, fid := range []uint{1, 2, 3} {
			if verifrt.Concrete(cliFeat == fid) {
				cliF = r.FeatureByAddress(vhAddr(dev, []uint{1}, fid))
			}
		}
		var cmd model.CmdType
		if op == 0 {
			cmd = model.CmdType{NodeManagementSubscriptionRequestCall: NewNodeManagementSubscriptionRequestCallType(cli, srv, ftype)}
		} else {
			cmd = model.CmdType{NodeManagementSubscriptionDeleteCall: NewNodeManagementSubscriptionDeleteCallType(cli, srv)}
		}
		h := w.hdr(vhAddr(dev, []uint{0}, 0), vhAddr("L", []uint{0}, 0), model.CmdClassifierTypeCall, ack)
		vhDeliver(r, model.DatagramType{Header: h, Payload: model.PayloadType{Cmd: []model.CmdType{cmd}}})
		verifrt.Reach("call-delivered")

		post := sm.subscriptionEntries
		out := vhCount(wr, w0)
		var expect bool
		if op == 0 {
			typeOK := func(t model.FeatureTypeType) bool {
				return verifrt.Concrete(verifrt.Any(verifrt.SameStr(string(t), string(ftype)), t == model.FeatureTypeTypeGeneric))
			}
			expect = srvF != nil && (srvF.Role() == model.RoleTypeServer || srvF.Role() == model.RoleTypeSpecial) && typeOK(srvF.Type()) &&
				cliF != nil && (cliF.Role() == model.RoleTypeClient || cliF.Role() == model.RoleTypeSpecial) && typeOK(cliF.Type()) &&
				!hasEntry(pre, srvF, cliF)
			if expect {
				verifrt.Reach("granted")
				verifrt.Assert("granted-subscription-is-registered", len(post) == len(pre)+1 && hasEntry(post, srvF, cliF))
				idsOK := true
				for _, e := range pre {
					idsOK = verifrt.All(idsOK, e.Id != post[len(post)-1].Id)
				}
				verifrt.Assert("new-subscription-id-is-distinct", idsOK)
			} else {
				verifrt.Reach("refused")
				verifrt.Assert("refused-subscription-leaves-registry-unchanged", len(post) == len(pre))
			}
		} else {
			expect = srvF != nil && cliF != nil && hasEntry(pre, srvF, cliF)
			if expect {
				verifrt.Reach("deleted")
				verifrt.Assert("delete-removes-exactly-the-addressed-pair", len(post) == len(pre)-1 && !hasEntry(post, srvF, cliF))
			} else {
				verifrt.Reach("delete-failed")
				verifrt.Assert("failing-delete-leaves-registry-unchanged", len(post) == len(pre))
			}
		}
		// every other entry is still there, in order
		k := 0
		kept := true
		for _, e := range pre {
			if op == 1 && expect && e.ServerFeature == srvF && e.ClientFeature == cliF {
				continue
			}
			if k >= len(post) || post[k] != e {
				kept = false
			}
			k++
		}
		verifrt.Assert("other-entries-untouched", kept)
		// answer
		if expect {
			okN := 0
			if ack {
				okN = 1
			}
			verifrt.Assert("accepted-call-answered-as-prescribed", out.okResults == okN && out.errResults == 0 && out.replies == 0)
			nEv := 0
			for _, e := range w.events[ev0:] {
				if e.EventType == api.EventTypeSubscriptionChange {
					nEv++
				}
			}
			verifrt.Assert("one-subscription-change-event", nEv == 1)
		} else {
			verifrt.Assert("rejected-call-gets-one-error-result", out.errResults == 1 && out.okResults == 0 && out.replies == 0)
		}
		verifrt.Assert("nothing-sent-to-the-other-peer", len(wo.msgs) == o0)
		verifrt.Observe("entries", len(post))

	case 2:
		// ---- data change on a local server feature: exactly one notify per subscriber of that feature
		how := peerSel
		fi := verifrt.Choice("feature", 3)
		f := w.localServers()[fi]
		verifrt.Scenario([]string{"notify-after-SetData", "notify-after-UpdateData"}[how])
		fn := model.FunctionTypeLoadControlLimitListData
		var data any = &model.LoadControlLimitListDataType{LoadControlLimitData: []model.LoadControlLimitDataType{{LimitId: util.Ptr(model.LoadControlLimitIdType(verifrt.Uint("limitId")))}}}
		if f == w.F2 {
			fn = model.FunctionTypeMeasurementListData
			data = &model.MeasurementListDataType{MeasurementData: []model.MeasurementDataType{{MeasurementId: util.Ptr(model.MeasurementIdType(verifrt.Uint("measurementId")))}}}
		}
		if how == 0 {
			f.SetData(fn, data)
		} else {
			_ = f.UpdateData(fn, data, model.NewFilterTypePartial(), nil)
		}
		verifrt.Reach("data-changed")
		for p := 0; p < 2; p++ {
			_, wr, _ := w.peer(p)
			from := a0
			if p == 1 {
				from = b0
			}
			out := vhCount(wr, from)
			want := 0
			for _, q := range pairs {
				if q.has && q.peer == p && q.server == f {
					want++
				}
			}
			verifrt.Assert("one-notify-per-subscriber-on-each-connection", out.notifies == want && len(wr.msgs)-from == want)
			good := true
			for _, d := range out.dgs {
				cd, err := d.Payload.Cmd[0].Data()
				good = good && err == nil && cd.Function != nil && *cd.Function == fn &&
					verifrt.Concrete(vhSameFeatureAddr(d.Header.AddressSource, f.Address()))
				// addressed to a subscribed client feature of this peer
				hit := false
				for _, q := range pairs {
					if q.has && q.peer == p && q.server == f && verifrt.Concrete(vhSameFeatureAddr(d.Header.AddressDestination, q.client.Address())) {
						hit = true
					}
				}
				good = good && hit
			}
			verifrt.Assert("notify-carries-the-changed-function-to-the-subscribed-feature", good)
		}

	case 3:
		// ---- the list reported for a peer
		verifrt.Scenario("subscriptions-of-peer")
		if peerSel == 1 {
			return // (the case number is wider than this operation needs)
		}
		for p := 0; p < 2; p++ {
			r, _, _ := w.peer(p)
			got := sm.Subscriptions(r)
			want := 0
			all := true
			for _, q := range pairs {
				if q.has && q.peer == p {
					want++
					all = all && hasEntry(got, q.server, q.client)
				}
			}
			verifrt.Assert("subscription-list-of-peer-is-exact", len(got) == want && all)
			ids := true
			for i := range got {
				for j := i + 1; j < len(got); j++ {
					ids = verifrt.All(ids, got[i].Id != got[j].Id)
				}
			}
			verifrt.Assert("subscription-ids-distinct", ids)
		}
		verifrt.Reach("listed")
	}
}
