package spine

import (
	"github.com/enbility/spine-go/api"
	"github.com/enbility/spine-go/model"
	"github.com/enbility/spine-go/util"
	"github.com/enbility/spine-go/verifrt"
)

func init() {
	verifrt.Register("VH_c02_remote", VH_c02_remote)
}

// the replicated copy of a peer's function data, fed through HandleSpineMesssage -> ProcessCmd ->
// FeatureLocal.processReply / processNotify -> FeatureRemote.UpdateData
type vhRemoteStore struct {
	w   *vhWorld
	fn  model.FunctionType
	src *model.FeatureAddressType
	dst *model.FeatureAddressType
	rf  api.FeatureRemoteInterface
	ref uint64
}

func (s *vhRemoteStore) Deliver(cmd model.CmdType, notify bool) bool {
	cl := model.CmdClassifierTypeReply
	if notify {
		cl = model.CmdClassifierTypeNotify
	}
	h := s.w.hdr(s.src, s.dst, cl, false)
	if !notify {
		s.ref++
		h.MsgCounterReference = util.Ptr(model.MsgCounterType(s.ref))
	}
	m0 := len(s.w.wA.msgs)
	vhDeliver(s.w.rA, model.DatagramType{Header: h, Payload: model.PayloadType{Cmd: []model.CmdType{cmd}}})
	return vhCount(s.w.wA, m0).errResults == 0
}

func (s *vhRemoteStore) Current() any { return s.rf.DataCopy(s.fn) }

// C02 through the receive path (see model.VHC02Remote).
func VH_c02_remote() {
	model.VHC02Remote(func(fn model.FunctionType) model.VHC02Store {
		w := vhNewWorld(vhWorldOpts{onlyA: true, noEvents: true})
		cl := w.E1.GetOrAddFeature(model.FeatureTypeTypeGeneric, model.RoleTypeClient)
		// peer A announces entity [2] with a Generic server feature that holds the function
		ei := vhEntInfo("A", []uint{2})
		ei.Description.LastStateChange = util.Ptr(model.NetworkManagementStateChangeTypeAdded)
		dd := &model.NodeManagementDetailedDiscoveryDataType{
			DeviceInformation:  &model.NodeManagementDetailedDiscoveryDeviceInformationType{Description: &model.NetworkManagementDeviceDescriptionDataType{DeviceAddress: &model.DeviceAddressType{Device: util.Ptr(model.AddressDeviceType("A"))}}},
			EntityInformation:  []model.NodeManagementDetailedDiscoveryEntityInformationType{ei},
			FeatureInformation: []model.NodeManagementDetailedDiscoveryFeatureInformationType{vhFeatInfo("A", []uint{2}, 1, model.FeatureTypeTypeGeneric, model.RoleTypeServer, fn)}}
		cmd := model.CmdType{Function: util.Ptr(model.FunctionTypeNodeManagementDetailedDiscoveryData), Filter: []model.FilterType{*model.NewFilterTypePartial()}, NodeManagementDetailedDiscoveryData: dd}
		vhDeliver(w.rA, model.DatagramType{Header: w.hdr(vhAddr("A", []uint{0}, 0), vhAddr("L", []uint{0}, 0), model.CmdClassifierTypeNotify, false), Payload: model.PayloadType{Cmd: []model.CmdType{cmd}}})
		src := vhAddr("A", []uint{2}, 1)
		rf := w.rA.FeatureByAddress(src)
		if rf == nil {
			return nil
		}
		return &vhRemoteStore{w: w, fn: fn, src: src, dst: cl.Address(), rf: rf, ref: 40}
	})
}
