package spine

import (
	"fmt"

	"github.com/enbility/spine-go/model"
	"github.com/enbility/spine-go/util"
	"github.com/enbility/spine-go/verifrt"
)

func init() {
	verifrt.Register("VH_c20_usecases", VH_c20_usecases)
	verifrt.Register("VH_c20_race", VH_c20_race)
}

var vhActors = []model.UseCaseActorType{model.UseCaseActorTypeCEM, model.UseCaseActorTypeEVSE}
var vhUCNames = []model.UseCaseNameType{model.UseCaseNameTypeLimitationOfPowerConsumption, model.UseCaseNameTypeMonitoringOfPowerConsumption, model.UseCaseNameTypeEVSECommissioningAndConfiguration}
var vhVersions = []string{"1.0.0", "2.0.0"}

type vhUC struct {
	has     bool
	version string
	avail   bool
}

func vhUCFind(data *model.NodeManagementUseCaseDataType, ent *EntityLocal, a model.UseCaseActorType, n model.UseCaseNameType) (*model.UseCaseSupportType, int) {
	var hit *model.UseCaseSupportType
	count := 0
	if data == nil {
		return nil, 0
	}
	for i := range data.UseCaseInformation {
		info := &data.UseCaseInformation[i]
		if info.Address == nil || info.Actor == nil || *info.Actor != a || !verifrt.Concrete(verifrt.DeepEq(info.Address.Entity, ent.Address().Entity)) {
			continue
		}
		for k := range info.UseCaseSupport {
			s := &info.UseCaseSupport[k]
			if s.UseCaseName != nil && *s.UseCaseName == n {
				hit = s
				count++
			}
		}
	}
	return hit, count
}

// C20 (inductive step): one use-case operation on an arbitrary valid registry.
func VH_c20_usecases() {
	ops := []string{"add", "remove", "set-availability", "remove-all", "remove-entity"}
	cs := verifrt.ShardChoice("case", len(ops)*2*2*2)
	nested := cs%2 == 1 // the second entity is [2], or the sub-entity [1,1] of the first
	cs /= 2
	op, ei, ai := ops[cs/4], (cs/2)%2, cs%2
	verifrt.Scenario(op + []string{"", "/nested-entities"}[cs*0+map[bool]int{false: 0, true: 1}[nested]])
	w := vhNewWorld(vhWorldOpts{secondEntity: true, secondNested: nested, onlyA: true})
	ents := []*EntityLocal{w.E1, w.E2}
	nm := w.L.NodeManagement()

	// ---- pre-state: entries (E1,a0), (E1,a1), (E2,a0); up to two supports each (names 0 and 1)
	var shadow [2][2][3]vhUC
	data := &model.NodeManagementUseCaseDataType{}
	for _, ea := range [][2]int{{0, 0}, {0, 1}, {1, 0}} {
		var sup []model.UseCaseSupportType
		for n := 0; n < 2; n++ {
			tag := fmt.Sprintf("pre[%d][%d][%d]", ea[0], ea[1], n)
			if !verifrt.Concrete(verifrt.Bool(tag + ".has")) {
				continue
			}
			// version and availability stay symbolic: the code only carries them around
			u := vhUC{has: true, version: verifrt.Str(tag+".version", vhVersions...), avail: verifrt.Bool(tag + ".available")}
			shadow[ea[0]][ea[1]][n] = u
			sup = append(sup, model.UseCaseSupportType{UseCaseName: util.Ptr(vhUCNames[n]), UseCaseVersion: util.Ptr(model.SpecificationVersionType(u.version)), UseCaseAvailable: util.Ptr(u.avail),
				ScenarioSupport: []model.UseCaseScenarioSupportType{1}})
		}
		if len(sup) > 0 {
			a := ents[ea[0]].Address()
			data.UseCaseInformation = append(data.UseCaseInformation, model.UseCaseInformationDataType{
				Address: &model.FeatureAddressType{Device: a.Device, Entity: a.Entity}, Actor: util.Ptr(vhActors[ea[1]]), UseCaseSupport: sup})
		}
	}
	nm.SetData(model.FunctionTypeNodeManagementUseCaseData, data)
	other := 1 - ei
	otherBefore := verifrt.Freeze(nm.DataCopy(model.FunctionTypeNodeManagementUseCaseData))

	// ---- the operation on entity ei, actor ai, name ni
	ni := verifrt.Choice("name", 3)
	e, a, n := ents[ei], vhActors[ai], vhUCNames[ni]
	switch op {
	case "add":
		ver := verifrt.Str("version", vhVersions...)
		av := verifrt.Bool("available")
		e.AddUseCaseSupport(a, n, model.SpecificationVersionType(ver), "", av, []model.UseCaseScenarioSupportType{1, 2})
		shadow[ei][ai][ni] = vhUC{true, ver, av}
	case "remove":
		e.RemoveUseCaseSupport(a, n)
		shadow[ei][ai][ni] = vhUC{}
	case "set-availability":
		av := verifrt.Bool("available")
		e.SetUseCaseAvailability(a, n, av)
		if shadow[ei][ai][ni].has {
			shadow[ei][ai][ni].avail = av
		}
	case "remove-all":
		e.RemoveAllUseCaseSupports()
		shadow[ei] = [2][3]vhUC{}
	case "remove-entity":
		w.L.RemoveEntity(e)
		shadow[ei] = [2][3]vhUC{}
	}
	verifrt.Reach("operated")

	// ---- the registry equals the shadow map
	got, _ := nm.DataCopy(model.FunctionTypeNodeManagementUseCaseData).(*model.NodeManagementUseCaseDataType)
	exact, values, unique := true, true, true
	for x := 0; x < 2; x++ {
		for y := 0; y < 2; y++ {
			for z := 0; z < 3; z++ {
				want := shadow[x][y][z]
				has := ents[x].HasUseCaseSupport(vhActors[y], vhUCNames[z])
				exact = exact && has == want.has
				s, cnt := vhUCFind(got, ents[x], vhActors[y], vhUCNames[z])
				unique = unique && cnt <= 1
				if want.has {
					if s == nil || s.UseCaseVersion == nil || s.UseCaseAvailable == nil {
						values = false
					} else {
						values = verifrt.All(values, verifrt.SameStr(string(*s.UseCaseVersion), want.version), verifrt.Iff(*s.UseCaseAvailable, want.avail))
					}
				}
			}
		}
	}
	verifrt.Assert("supported-exactly-if-added-and-not-removed", exact)
	verifrt.Assert("version-and-availability-are-the-last-given", values)
	verifrt.Assert("one-entry-per-entity-actor-and-name", unique)
	// the other entity's use cases are untouched
	same := true
	before, _ := otherBefore.(*model.NodeManagementUseCaseDataType)
	for y := 0; y < 2; y++ {
		for z := 0; z < 3; z++ {
			s1, _ := vhUCFind(before, ents[other], vhActors[y], vhUCNames[z])
			s2, _ := vhUCFind(got, ents[other], vhActors[y], vhUCNames[z])
			same = same && verifrt.Concrete(verifrt.DeepEq(s1, s2))
		}
	}
	verifrt.Assert("other-entitys-use-cases-untouched", same)
	// what a peer reads from node management is that registry
	w0 := len(w.wA.msgs)
	h := w.hdr(vhAddr("A", []uint{0}, 0), vhAddr("L", []uint{0}, 0), model.CmdClassifierTypeRead, false)
	vhDeliver(w.rA, model.DatagramType{Header: h, Payload: model.PayloadType{Cmd: []model.CmdType{{NodeManagementUseCaseData: &model.NodeManagementUseCaseDataType{}}}}})
	out := vhCount(w.wA, w0)
	readOK := out.replies == 1
	if readOK {
		for _, d := range out.dgs {
			if d.Header.CmdClassifier != nil && *d.Header.CmdClassifier == model.CmdClassifierTypeReply {
				readOK = d.Payload.Cmd[0].NodeManagementUseCaseData != nil && verifrt.Concrete(verifrt.DeepEq(d.Payload.Cmd[0].NodeManagementUseCaseData, nm.DataCopy(model.FunctionTypeNodeManagementUseCaseData)))
			}
		}
	}
	verifrt.Assert("peer-reads-exactly-the-registry", readOK)
	verifrt.Observe("exact", exact)
	_ = vhVersions
}

// two goroutines operate on different entities at the same time: both updates must be present afterwards
func VH_c20_race() {
	verifrt.Scenario("concurrent-adds-on-different-entities")
	w := vhNewWorld(vhWorldOpts{secondEntity: true, onlyA: true})
	verifrt.Go(func() {
		w.E1.AddUseCaseSupport(vhActors[0], vhUCNames[0], "1.0.0", "", true, []model.UseCaseScenarioSupportType{1})
	})
	verifrt.Go(func() {
		w.E2.AddUseCaseSupport(vhActors[0], vhUCNames[1], "1.0.0", "", true, []model.UseCaseScenarioSupportType{1})
	})
	verifrt.PreemptOn()
	verifrt.WaitIdle()
	verifrt.PreemptOff()
	verifrt.Reach("both-done")
	verifrt.Assert("no-thread-left-blocked", verifrt.BlockedThreads() == 0)
	verifrt.Assert("concurrent-operations-on-different-entities-both-take-effect",
		w.E1.HasUseCaseSupport(vhActors[0], vhUCNames[0]) && w.E2.HasUseCaseSupport(vhActors[0], vhUCNames[1]))
}
