package spine

import (
	"fmt"

	"github.com/enbility/spine-go/model"
	"github.com/enbility/spine-go/verifrt"
)

func init() {
	verifrt.Register("VH_c05_robust", VH_c05_robust)
}

var vhC05Kinds = []string{"no-payload", "resultData", "detailedDiscoveryData", "subscriptionRequestCall", "subscriptionDeleteCall", "bindingRequestCall", "bindingDeleteCall",
	"subscriptionData", "bindingData", "useCaseData", "destinationListData", "loadControlLimitListData", "deviceClassificationManufacturerData"}

// C05: one structurally valid datagram with every optional field absent, empty or arbitrary, in three
// connection states; message handling must return, and both peers must still be served afterwards.
// The clause of C01 "never any result in answer to a result" is asserted on this wider domain as well.
func VH_c05_robust() {
	states := []string{"before-discovery", "connected", "after-entity-removal"}
	cs := verifrt.ShardChoice("case", len(vhC05Kinds)*len(states))
	kind, state := vhC05Kinds[cs/len(states)], states[cs%len(states)]
	verifrt.Scenario(kind + "/" + state)
	w := vhNewWorld(vhWorldOpts{noEvents: true})
	nmL := vhAddr("L", []uint{0}, 0)
	r, wr := w.rA, w.wA
	switch state {
	case "before-discovery":
		// a third connection whose discovery reply has not arrived yet
		wr = &vhWriter{name: "C"}
		w.L.SetupRemoteDevice("skiC", wr)
		r = w.L.RemoteDeviceForSki("skiC")
	case "after-entity-removal":
		ei := vhEntInfo("A", []uint{1})
		st := model.NetworkManagementStateChangeTypeRemoved
		ei.Description.LastStateChange = &st
		dd := &model.NodeManagementDetailedDiscoveryDataType{EntityInformation: []model.NodeManagementDetailedDiscoveryEntityInformationType{ei}}
		cmd := model.CmdType{Filter: []model.FilterType{*model.NewFilterTypePartial()}, NodeManagementDetailedDiscoveryData: dd}
		vhDeliver(w.rA, model.DatagramType{Header: w.hdr(vhAddr("A", []uint{0}, 0), nmL, model.CmdClassifierTypeNotify, false), Payload: model.PayloadType{Cmd: []model.CmdType{cmd}}})
	}

	// ---- the datagram: header and payload filled without any well-formedness assumption
	deep := verifrt.Spec{MaxLen: 2, Depth: verifrt.Param("depth", 5), MaxUint: 9, Skip: []string{"TimePeriodType", "SpecificationVersion"}}
	var d model.DatagramType
	verifrt.Fill("header", &d.Header, deep)
	nCmd := verifrt.Choice("cmds", 2)
	if nCmd == 1 {
		var cmd model.CmdType
		switch kind {
		case "resultData":
			cmd.ResultData = new(model.ResultDataType)
			verifrt.Fill("cmd.resultData", cmd.ResultData, deep)
		case "detailedDiscoveryData":
			cmd.NodeManagementDetailedDiscoveryData = new(model.NodeManagementDetailedDiscoveryDataType)
			verifrt.Fill("cmd.discovery", cmd.NodeManagementDetailedDiscoveryData, verifrt.Spec{MaxLen: 2, Depth: 5, MaxUint: 9, Skip: []string{"TimePeriodType", "SpecificationVersionList", "Label", "MaxResponseDelay", "SpecificUsage", "MinimumTrustLevel", "Description"}})
		case "subscriptionRequestCall":
			cmd.NodeManagementSubscriptionRequestCall = new(model.NodeManagementSubscriptionRequestCallType)
			verifrt.Fill("cmd.subscriptionRequest", cmd.NodeManagementSubscriptionRequestCall, deep)
		case "subscriptionDeleteCall":
			cmd.NodeManagementSubscriptionDeleteCall = new(model.NodeManagementSubscriptionDeleteCallType)
			verifrt.Fill("cmd.subscriptionDelete", cmd.NodeManagementSubscriptionDeleteCall, deep)
		case "bindingRequestCall":
			cmd.NodeManagementBindingRequestCall = new(model.NodeManagementBindingRequestCallType)
			verifrt.Fill("cmd.bindingRequest", cmd.NodeManagementBindingRequestCall, deep)
		case "bindingDeleteCall":
			cmd.NodeManagementBindingDeleteCall = new(model.NodeManagementBindingDeleteCallType)
			verifrt.Fill("cmd.bindingDelete", cmd.NodeManagementBindingDeleteCall, deep)
		case "subscriptionData":
			cmd.NodeManagementSubscriptionData = new(model.NodeManagementSubscriptionDataType)
		case "bindingData":
			cmd.NodeManagementBindingData = new(model.NodeManagementBindingDataType)
		case "useCaseData":
			cmd.NodeManagementUseCaseData = new(model.NodeManagementUseCaseDataType)
			verifrt.Fill("cmd.useCase", cmd.NodeManagementUseCaseData, verifrt.Spec{MaxLen: 1, Depth: 4, MaxUint: 9})
		case "destinationListData":
			cmd.NodeManagementDestinationListData = new(model.NodeManagementDestinationListDataType)
		case "loadControlLimitListData":
			cmd.LoadControlLimitListData = new(model.LoadControlLimitListDataType)
			verifrt.Fill("cmd.limits", cmd.LoadControlLimitListData, verifrt.Spec{MaxLen: 1, Depth: 3, MaxUint: 9, Skip: []string{"TimePeriodType"}})
			// filters: control element and the selectors/elements of this function, all optional
			nf := verifrt.Choice("filters", 3)
			for i := 0; i < nf; i++ {
				var f model.FilterType
				verifrt.Fill(fmt.Sprintf("cmd.filter[%d]", i), &f, verifrt.Spec{MaxLen: 1, Depth: 2, MaxUint: 9, Only: []string{"CmdControl", "LoadControlLimitListDataSelectors", "LoadControlLimitDataElements"}, Skip: []string{"TimePeriodType"}})
				cmd.Filter = append(cmd.Filter, f)
			}
		case "deviceClassificationManufacturerData":
			cmd.DeviceClassificationManufacturerData = new(model.DeviceClassificationManufacturerDataType)
		}
		d.Payload.Cmd = []model.CmdType{cmd}
	}
	w0 := len(wr.msgs)
	vhDeliver(r, d)
	verifrt.Reach("handled")
	out := vhCount(wr, w0)
	isResult := verifrt.Concrete(verifrt.All(!verifrt.IsNil(d.Header.CmdClassifier)))
	if isResult {
		isResult = verifrt.Concrete(verifrt.SameStr(string(*d.Header.CmdClassifier), string(model.CmdClassifierTypeResult)))
	}
	if isResult {
		verifrt.Reach("classifier-result")
		verifrt.Assert("never-a-result-in-answer-to-a-result", out.results == 0)
	}
	// ---- afterwards every peer is still served
	for p := 0; p < 2; p++ {
		rr, ww, dev := w.peer(p)
		m0 := len(ww.msgs)
		vhDeliver(rr, model.DatagramType{Header: w.hdr(vhAddr(dev, []uint{0}, 0), nmL, model.CmdClassifierTypeRead, false), Payload: model.PayloadType{Cmd: []model.CmdType{{NodeManagementDetailedDiscoveryData: &model.NodeManagementDetailedDiscoveryDataType{}}}}})
		verifrt.Assert("discovery-read-still-answered-afterwards", vhCount(ww, m0).replies == 1)
	}
	verifrt.Assert("no-thread-left-blocked", verifrt.BlockedThreads() == 0)
}
