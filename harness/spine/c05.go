package spine

import (
	"fmt"

	"github.com/enbility/spine-go/model"
	"github.com/enbility/spine-go/util"
	"github.com/enbility/spine-go/verifrt"
)

func init() {
	verifrt.Register("VH_c05_robust", VH_c05_robust)
	verifrt.Register("VH_c01_result_any", VH_c01_result_any)
}

// C01's clause "never any result in answer to a result" on the wider domain: any decoded result datagram,
// whatever its payload lacks (a failing result must not be answered either).
func VH_c01_result_any() { vhC05("resultData", "connected") }

var vhC05Kinds = []string{"no-payload", "resultData", "detailedDiscoveryData", "detailedDiscoveryData-features", "subscriptionRequestCall", "subscriptionDeleteCall", "bindingRequestCall", "bindingDeleteCall",
	"subscriptionData", "bindingData", "useCaseData", "destinationListData", "loadControlLimitListData", "deviceClassificationManufacturerData"}

// C05: one structurally valid datagram with every optional field absent, empty or arbitrary, in three
// connection states; message handling must return, and both peers must still be served afterwards.
// The clause of C01 "never any result in answer to a result" is asserted on this wider domain as well.
func VH_c05_robust() { vhC05("", "") }

func vhC05(fixKind, fixState string) {
	// every payload kind on an established connection; five representative kinds in the two other states as well
	type kc struct{ kind, state string }
	states := []string{"before-discovery", "connected", "after-entity-removal"}
	var cases []kc
	// (a) arbitrary header with a simple payload, in the three connection states;
	// (b) every payload kind, arbitrary, under a header whose addresses and counter are present (so that
	//     handling gets past the header), on an established connection; four kinds in the other states too
	for _, st := range states {
		cases = append(cases, kc{"header", st})
	}
	for _, k := range vhC05Kinds {
		cases = append(cases, kc{k, "connected"})
	}
	if verifrt.Param("allStates", 0) == 1 {
		for _, k := range []string{"resultData", "detailedDiscoveryData", "subscriptionRequestCall", "loadControlLimitListData"} {
			cases = append(cases, kc{k, "before-discovery"}, kc{k, "after-entity-removal"})
		}
	}
	kind, state := fixKind, fixState
	if fixKind == "" {
		cs := verifrt.ShardChoice("case", len(cases))
		kind, state = cases[cs].kind, cases[cs].state
	}
	verifrt.Scenario(kind + "/" + state)
	w := vhNewWorld(vhWorldOpts{noEvents: true})
	nmL := vhAddr("L", []uint{0}, 0)
	r, wr := w.rA, w.wA
	switch state {
	case "before-discovery":
		// a third connection whose discovery reply has not arrived yet
		wr = &vhWriter{name: "C"}
		w.L.SetupRemoteDevice("skiC", wr)
		r = w.L.RemoteDeviceForSki("skiC")
	case "after-entity-removal":
		ei := vhEntInfo("A", []uint{1})
		st := model.NetworkManagementStateChangeTypeRemoved
		ei.Description.LastStateChange = &st
		dd := &model.NodeManagementDetailedDiscoveryDataType{EntityInformation: []model.NodeManagementDetailedDiscoveryEntityInformationType{ei}}
		cmd := model.CmdType{Filter: []model.FilterType{*model.NewFilterTypePartial()}, NodeManagementDetailedDiscoveryData: dd}
		vhDeliver(w.rA, model.DatagramType{Header: w.hdr(vhAddr("A", []uint{0}, 0), nmL, model.CmdClassifierTypeNotify, false), Payload: model.PayloadType{Cmd: []model.CmdType{cmd}}})
	}

	// ---- the datagram: header and payload filled without any well-formedness assumption
	ml := verifrt.Param("maxLen", 1)
	mu := uint64(verifrt.Param("maxUint", 3))
	deep := verifrt.Spec{MaxLen: ml, Depth: verifrt.Param("depth", 4), MaxUint: mu, Skip: []string{"TimePeriodType", "SpecificationVersion"}}
	var d model.DatagramType
	hdrSpec := deep
	hdrSpec.Only = []string{"AddressSource", "AddressDestination", "MsgCounter", "MsgCounterReference", "CmdClassifier", "AckRequest"}
	verifrt.Fill("header", &d.Header, hdrSpec)
	nCmd := verifrt.Choice("cmds", 2)
	var probeSrc *model.FeatureAddressType // the announced feature the datagram claims to come from
	if kind == "header" {
		kind = "resultData"
	} else {
		// the header gets the message to the payload handlers: announced source, resolvable destination, counter present
		dev := "A"
		if state == "before-discovery" {
			dev = "C"
		}
		src, dst := vhAddr(dev, []uint{0}, 0), nmL
		if kind == "loadControlLimitListData" || kind == "deviceClassificationManufacturerData" {
			src, dst = vhAddr(dev, []uint{1}, 1), w.F1.Address()
			if verifrt.Concrete(verifrt.Bool("header.to-client-feature")) {
				dst = w.F3.Address()
			}
		}
		d.Header.AddressSource, d.Header.AddressDestination = src, dst
		probeSrc = src
		verifrt.Assume(verifrt.All(!verifrt.IsNil(d.Header.MsgCounter), !verifrt.IsNil(d.Header.CmdClassifier), !verifrt.IsNil(d.Header.MsgCounterReference)))
		if verifrt.Param("allStates", 0) == 0 {
			verifrt.Assume(verifrt.IsNil(d.Header.AckRequest)) // quick tier: acknowledgement not requested
		}
		nCmd = 1
	}
	if nCmd == 1 {
		var cmd model.CmdType
		switch kind {
		case "resultData":
			cmd.ResultData = new(model.ResultDataType)
			verifrt.Fill("cmd.resultData", cmd.ResultData, deep)
		case "detailedDiscoveryData-features":
			// a well-formed entity entry (entity [2] of the sender, added) with arbitrary feature entries
			dd := new(model.NodeManagementDetailedDiscoveryDataType)
			verifrt.Fill("cmd.discovery", dd, verifrt.Spec{MaxLen: ml, Depth: 5, MaxUint: mu, Only: []string{"FeatureInformation"}, Skip: []string{"TimePeriodType", "Label", "MaxResponseDelay", "SpecificUsage", "MinimumTrustLevel", "DescriptionType"}})
			ei := vhEntInfo("A", []uint{2})
			st := model.NetworkManagementStateChangeTypeAdded
			ei.Description.LastStateChange = &st
			dd.EntityInformation = []model.NodeManagementDetailedDiscoveryEntityInformationType{ei}
			dd.DeviceInformation = &model.NodeManagementDetailedDiscoveryDeviceInformationType{Description: &model.NetworkManagementDeviceDescriptionDataType{}}
			cmd.NodeManagementDetailedDiscoveryData = dd
			if verifrt.Concrete(verifrt.Bool("cmd.partial")) {
				cmd.Filter = []model.FilterType{*model.NewFilterTypePartial()}
			}
		case "detailedDiscoveryData":
			cmd.NodeManagementDetailedDiscoveryData = new(model.NodeManagementDetailedDiscoveryDataType)
			verifrt.Fill("cmd.discovery", cmd.NodeManagementDetailedDiscoveryData, verifrt.Spec{MaxLen: ml, Depth: 5, MaxUint: mu, Skip: []string{"SupportedFunction", "TimePeriodType", "SpecificationVersionList", "Label", "MaxResponseDelay", "SpecificUsage", "MinimumTrustLevel", "DescriptionType", "DeviceType", "NetworkFeatureSet", "NativeSetup", "TechnologyAddress", "CommunicationsTechnologyInformation", "FederatedAllowed", "NetworkManagementResponsibleAddress", "DeviceAddress"}})
		case "subscriptionRequestCall":
			cmd.NodeManagementSubscriptionRequestCall = new(model.NodeManagementSubscriptionRequestCallType)
			verifrt.Fill("cmd.subscriptionRequest", cmd.NodeManagementSubscriptionRequestCall, deep)
		case "subscriptionDeleteCall":
			cmd.NodeManagementSubscriptionDeleteCall = new(model.NodeManagementSubscriptionDeleteCallType)
			verifrt.Fill("cmd.subscriptionDelete", cmd.NodeManagementSubscriptionDeleteCall, deep)
		case "bindingRequestCall":
			cmd.NodeManagementBindingRequestCall = new(model.NodeManagementBindingRequestCallType)
			verifrt.Fill("cmd.bindingRequest", cmd.NodeManagementBindingRequestCall, deep)
		case "bindingDeleteCall":
			cmd.NodeManagementBindingDeleteCall = new(model.NodeManagementBindingDeleteCallType)
			verifrt.Fill("cmd.bindingDelete", cmd.NodeManagementBindingDeleteCall, deep)
		case "subscriptionData":
			cmd.NodeManagementSubscriptionData = new(model.NodeManagementSubscriptionDataType)
		case "bindingData":
			cmd.NodeManagementBindingData = new(model.NodeManagementBindingDataType)
		case "useCaseData":
			cmd.NodeManagementUseCaseData = new(model.NodeManagementUseCaseDataType)
			verifrt.Fill("cmd.useCase", cmd.NodeManagementUseCaseData, verifrt.Spec{MaxLen: 1, Depth: 4, MaxUint: 9})
		case "destinationListData":
			cmd.NodeManagementDestinationListData = new(model.NodeManagementDestinationListDataType)
		case "loadControlLimitListData":
			cmd.LoadControlLimitListData = new(model.LoadControlLimitListDataType)
			verifrt.Fill("cmd.limits", cmd.LoadControlLimitListData, verifrt.Spec{MaxLen: 1, Depth: 3, MaxUint: mu, Skip: []string{"TimePeriodType", "ScaledNumberType"}})
			// filters: control element and the selectors/elements of this function, all optional
			nf := verifrt.Choice("filters", verifrt.Param("maxFilters", 1)+1)
			for i := 0; i < nf; i++ {
				var f model.FilterType
				verifrt.Fill(fmt.Sprintf("cmd.filter[%d]", i), &f, verifrt.Spec{MaxLen: 1, Depth: 2, MaxUint: 9, Only: []string{"CmdControl", "LoadControlLimitListDataSelectors", "LoadControlLimitDataElements"}, Skip: []string{"TimePeriodType"}})
				cmd.Filter = append(cmd.Filter, f)
			}
		case "deviceClassificationManufacturerData":
			cmd.DeviceClassificationManufacturerData = new(model.DeviceClassificationManufacturerDataType)
		}
		d.Payload.Cmd = []model.CmdType{cmd}
	}
	w0 := len(wr.msgs)
	vhDeliver(r, d)
	verifrt.Reach("handled")
	out := vhCount(wr, w0)
	// (decided by the solver without forking on the classifier)
	resCl := model.CmdClassifierTypeResult
	isResult := verifrt.DeepEq(d.Header.CmdClassifier, &resCl)
	verifrt.Assert("never-a-result-in-answer-to-a-result", verifrt.Implies(isResult, out.results == 0))
	// ---- afterwards every peer is still served
	for p := 0; p < 2; p++ {
		rr, ww, dev := w.peer(p)
		m0 := len(ww.msgs)
		vhDeliver(rr, model.DatagramType{Header: w.hdr(vhAddr(dev, []uint{0}, 0), nmL, model.CmdClassifierTypeRead, false), Payload: model.PayloadType{Cmd: []model.CmdType{{NodeManagementDetailedDiscoveryData: &model.NodeManagementDetailedDiscoveryDataType{}}}}})
		verifrt.Assert("discovery-read-still-answered-afterwards", vhCount(ww, m0).replies == 1)
	}
	// ---- and valid data from the very feature the datagram came from is still taken in
	if probeSrc != nil {
		if rf := r.FeatureByAddress(probeSrc); rf != nil {
			if rf.Type() == model.FeatureTypeTypeNodeManagement {
				uc := &model.NodeManagementUseCaseDataType{UseCaseInformation: []model.UseCaseInformationDataType{{Actor: util.Ptr(model.UseCaseActorTypeEVSE)}}}
				vhDeliver(r, model.DatagramType{Header: w.hdr(probeSrc, nmL, model.CmdClassifierTypeNotify, false), Payload: model.PayloadType{Cmd: []model.CmdType{{NodeManagementUseCaseData: uc}}}})
				got, _ := rf.DataCopy(model.FunctionTypeNodeManagementUseCaseData).(*model.NodeManagementUseCaseDataType)
				verifrt.Assert("valid-data-from-the-same-feature-still-taken-in", got != nil && len(got.UseCaseInformation) == 1)
			} else if rf.Type() == model.FeatureTypeTypeLoadControl { // (a discovery datagram may have re-announced the feature with another type)
				vhDeliver(r, model.DatagramType{Header: w.hdr(probeSrc, w.F3.Address(), model.CmdClassifierTypeNotify, false), Payload: model.PayloadType{Cmd: []model.CmdType{{LoadControlLimitListData: vhLimitList(7, true)}}}})
				got, _ := rf.DataCopy(model.FunctionTypeLoadControlLimitListData).(*model.LoadControlLimitListDataType)
				verifrt.Assert("valid-data-from-the-same-feature-still-taken-in", got != nil && len(got.LoadControlLimitData) == 1)
			}
			verifrt.Reach("probed-the-source-feature")
		}
	}
	verifrt.Assert("no-thread-left-blocked", verifrt.BlockedThreads() == 0)
}
