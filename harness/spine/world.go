package spine

// The "small world" of DESIGN.md section 4: a local device with a few
// features and two peers that use identical entity and feature numbers.

import (
	"encoding/json"

	"github.com/enbility/spine-go/api"
	"github.com/enbility/spine-go/model"
	"github.com/enbility/spine-go/util"
	"github.com/enbility/spine-go/verifrt"
)

type vhWriter struct {
	name string
	msgs [][]byte
}

func (w *vhWriter) WriteShipMessageWithPayload(m []byte) { w.msgs = append(w.msgs, m) }

type vhWorld struct {
	L              *DeviceLocal
	E1, E2         *EntityLocal
	F1, F2, F3, F4 api.FeatureLocalInterface // F1 LoadControl server, F2 Measurement server, F3 LoadControl client, F4 LoadControl server on E2
	wA, wB         *vhWriter
	rA, rB         api.DeviceRemoteInterface
	ctr            uint64
	events         []api.EventPayload
}

type vhWorldOpts struct {
	secondEntity bool // local entity [2] with a second LoadControl server
	secondNested bool // ... at address [1,1] (a sub-entity of [1]) instead of [2]
	subEntity    bool // peers announce sub-entity [1,1] as well
	onlyA        bool
	f1ReadOnly   bool
	f4ReadOnly   bool
	noEvents     bool
}

// core-level handler: invoked synchronously by Events.Publish
func (w *vhWorld) HandleEvent(p api.EventPayload) { w.events = append(w.events, p) }

func vhAddr(dev string, ent []uint, feat uint) *model.FeatureAddressType {
	a := &model.FeatureAddressType{Entity: NewAddressEntityType(ent), Feature: util.Ptr(model.AddressFeatureType(feat))}
	if dev != "" {
		a.Device = util.Ptr(model.AddressDeviceType(dev))
	}
	return a
}

func vhFeatInfo(dev string, ent []uint, id uint, ft model.FeatureTypeType, role model.RoleType, fns ...model.FunctionType) model.NodeManagementDetailedDiscoveryFeatureInformationType {
	d := &model.NetworkManagementFeatureDescriptionDataType{FeatureAddress: vhAddr(dev, ent, id), FeatureType: &ft, Role: &role}
	for _, fn := range fns {
		f := fn
		d.SupportedFunction = append(d.SupportedFunction, model.FunctionPropertyType{Function: &f, PossibleOperations: &model.PossibleOperationsType{Read: &model.PossibleOperationsReadType{}, Write: &model.PossibleOperationsWriteType{}}})
	}
	return model.NodeManagementDetailedDiscoveryFeatureInformationType{Description: d}
}

func vhEntInfo(dev string, ent []uint) model.NodeManagementDetailedDiscoveryEntityInformationType {
	return model.NodeManagementDetailedDiscoveryEntityInformationType{Description: &model.NetworkManagementEntityDescriptionDataType{
		EntityAddress: &model.EntityAddressType{Device: util.Ptr(model.AddressDeviceType(dev)), Entity: NewAddressEntityType(ent)}, EntityType: util.Ptr(model.EntityTypeTypeEVSE)}}
}

// deliver one datagram through the real receive path (JSON decode included)
func vhDeliver(r api.DeviceRemoteInterface, d model.DatagramType) {
	b, _ := json.Marshal(model.Datagram{Datagram: d})
	_, _ = r.HandleSpineMesssage(b)
}

func (w *vhWorld) hdr(src, dst *model.FeatureAddressType, cl model.CmdClassifierType, ack bool) model.HeaderType {
	w.ctr++
	h := model.HeaderType{AddressSource: src, AddressDestination: dst, MsgCounter: util.Ptr(model.MsgCounterType(w.ctr)), CmdClassifier: &cl}
	if ack {
		h.AckRequest = &ack
	}
	return h
}

func vhDecode(m []byte) model.DatagramType {
	var d model.Datagram
	_ = json.Unmarshal(m, &d)
	return d.Datagram
}

func (w *vhWorld) announce(r api.DeviceRemoteInterface, dev string, sub bool) {
	nm := vhAddr(dev, []uint{0}, 0)
	dd := &model.NodeManagementDetailedDiscoveryDataType{
		DeviceInformation: &model.NodeManagementDetailedDiscoveryDeviceInformationType{Description: &model.NetworkManagementDeviceDescriptionDataType{DeviceAddress: &model.DeviceAddressType{Device: util.Ptr(model.AddressDeviceType(dev))}}},
		EntityInformation: []model.NodeManagementDetailedDiscoveryEntityInformationType{vhEntInfo(dev, []uint{0}), vhEntInfo(dev, []uint{1})},
		FeatureInformation: []model.NodeManagementDetailedDiscoveryFeatureInformationType{
			vhFeatInfo(dev, []uint{0}, 0, model.FeatureTypeTypeNodeManagement, model.RoleTypeSpecial),
			vhFeatInfo(dev, []uint{1}, 1, model.FeatureTypeTypeLoadControl, model.RoleTypeClient),
			vhFeatInfo(dev, []uint{1}, 2, model.FeatureTypeTypeLoadControl, model.RoleTypeServer, model.FunctionTypeLoadControlLimitListData),
			vhFeatInfo(dev, []uint{1}, 3, model.FeatureTypeTypeMeasurement, model.RoleTypeClient)},
	}
	if sub {
		dd.EntityInformation = append(dd.EntityInformation, vhEntInfo(dev, []uint{1, 1}))
		dd.FeatureInformation = append(dd.FeatureInformation, vhFeatInfo(dev, []uint{1, 1}, 1, model.FeatureTypeTypeLoadControl, model.RoleTypeClient))
	}
	h := w.hdr(nm, vhAddr("L", []uint{0}, 0), model.CmdClassifierTypeReply, false)
	h.MsgCounterReference = util.Ptr(model.MsgCounterType(1))
	vhDeliver(r, model.DatagramType{Header: h, Payload: model.PayloadType{Cmd: []model.CmdType{{NodeManagementDetailedDiscoveryData: dd}}}})
}

func vhNewWorld(o vhWorldOpts) *vhWorld {
	w := &vhWorld{ctr: 1000}
	w.L = NewDeviceLocal("brand", "model", "serial", "code", "L", model.DeviceTypeTypeEnergyManagementSystem, model.NetworkManagementFeatureSetTypeSmart)
	w.E1 = NewEntityLocal(w.L, model.EntityTypeTypeCEM, NewAddressEntityType([]uint{1}), 0)
	w.F1 = w.E1.GetOrAddFeature(model.FeatureTypeTypeLoadControl, model.RoleTypeServer)
	w.F1.AddFunctionType(model.FunctionTypeLoadControlLimitListData, true, !o.f1ReadOnly)
	w.F1.AddFunctionType(model.FunctionTypeLoadControlLimitDescriptionListData, true, false)
	w.F2 = w.E1.GetOrAddFeature(model.FeatureTypeTypeMeasurement, model.RoleTypeServer)
	w.F2.AddFunctionType(model.FunctionTypeMeasurementListData, true, false)
	w.F3 = w.E1.GetOrAddFeature(model.FeatureTypeTypeLoadControl, model.RoleTypeClient)
	w.L.AddEntity(w.E1)
	if o.secondEntity {
		a2 := []uint{2}
		if o.secondNested {
			a2 = []uint{1, 1}
		}
		w.E2 = NewEntityLocal(w.L, model.EntityTypeTypeCEM, NewAddressEntityType(a2), 0)
		w.F4 = w.E2.GetOrAddFeature(model.FeatureTypeTypeLoadControl, model.RoleTypeServer)
		w.F4.AddFunctionType(model.FunctionTypeLoadControlLimitListData, true, !o.f4ReadOnly)
		w.L.AddEntity(w.E2)
	}
	w.wA = &vhWriter{name: "A"}
	w.L.SetupRemoteDevice("skiA", w.wA)
	w.rA = w.L.RemoteDeviceForSki("skiA")
	w.announce(w.rA, "A", o.subEntity)
	if !o.onlyA {
		w.wB = &vhWriter{name: "B"}
		w.L.SetupRemoteDevice("skiB", w.wB)
		w.rB = w.L.RemoteDeviceForSki("skiB")
		w.announce(w.rB, "B", o.subEntity)
	}
	if !o.noEvents {
		_ = Events.subscribe(api.EventHandlerLevelCore, w)
	}
	return w
}

func (w *vhWorld) peer(i int) (api.DeviceRemoteInterface, *vhWriter, string) {
	if i == 0 {
		return w.rA, w.wA, "A"
	}
	return w.rB, w.wB, "B"
}

// localServers lists the local server-side features a peer may subscribe or bind to.
func (w *vhWorld) localServers() []api.FeatureLocalInterface {
	out := []api.FeatureLocalInterface{w.F1, w.F2}
	if w.F4 != nil {
		out = append(out, w.F4)
	}
	return out
}

// counts of datagrams by classifier written to a connection since index from
type vhOut struct {
	replies, results, errResults, okResults, notifies, reads, calls, writes, other int
	dgs                                                                            []model.DatagramType
}

func vhCount(w *vhWriter, from int) vhOut {
	var o vhOut
	for _, m := range w.msgs[from:] {
		d := vhDecode(m)
		o.dgs = append(o.dgs, d)
		if d.Header.CmdClassifier == nil {
			o.other++
			continue
		}
		switch *d.Header.CmdClassifier {
		case model.CmdClassifierTypeReply:
			o.replies++
		case model.CmdClassifierTypeResult:
			o.results++
			c := d.Payload.Cmd
			if len(c) > 0 && c[0].ResultData != nil && c[0].ResultData.ErrorNumber != nil && *c[0].ResultData.ErrorNumber == 0 {
				o.okResults++
			} else {
				o.errResults++
			}
		case model.CmdClassifierTypeNotify:
			o.notifies++
		case model.CmdClassifierTypeRead:
			o.reads++
		case model.CmdClassifierTypeCall:
			o.calls++
		case model.CmdClassifierTypeWrite:
			o.writes++
		default:
			o.other++
		}
	}
	return o
}

var _ = verifrt.InEngine
