package spine

import (
	"github.com/enbility/spine-go/api"
	"github.com/enbility/spine-go/model"
	"github.com/enbility/spine-go/util"
	"github.com/enbility/spine-go/verifrt"
)

func init() {
	verifrt.Register("VH_c09_bindings", VH_c09_bindings)
}

// C09: binding registry (inductive step): exact, at most one binding per server feature.
func VH_c09_bindings() {
	cs := verifrt.ShardChoice("case", 4*2*4)
	op, peerSel, preset := cs/8, (cs/4)%2, cs%4
	w := vhNewWorld(vhWorldOpts{secondEntity: true})
	sm := w.L.BindingManager().(*BindingManager)
	pairs := w.registryPairs()
	counter := vhChooseRegistry("reg", pairs, verifrt.Param("maxEntries", 4), preset)
	for i, p := range pairs {
		for _, q := range pairs[:i] {
			if p.has && q.has && p.server == q.server {
				verifrt.Assume(false) // invariant: at most one binding per server feature
			}
		}
	}
	vhSetBindingNum(sm, counter)
	for _, p := range pairs {
		if p.has {
			sm.bindingEntries = append(sm.bindingEntries, &api.BindingEntry{Id: p.id, ServerFeature: p.server, ClientFeature: p.client})
		}
	}
	pre := append([]*api.BindingEntry{}, sm.bindingEntries...)
	_, _ = len(w.wA.msgs), len(w.wB.msgs)
	ev0 := len(w.events)

	hasEntry := func(list []*api.BindingEntry, s api.FeatureLocalInterface, c api.FeatureRemoteInterface) bool {
		for _, e := range list {
			if e.ServerFeature == s && e.ClientFeature == c {
				return true
			}
		}
		return false
	}

	switch op {
	case 0, 1:
		// ---- a subscribe (0) or unsubscribe (1) call from peer p with symbolic addresses
		name := []string{"bind-call", "unbind-call"}[op]
		p := peerSel
		r, wr, dev := w.peer(p)
		_, wo, _ := w.peer(1 - p)
		o0 := len(wo.msgs)
		w0 := len(wr.msgs)
		srvEnt, srvFeat := verifrt.Uint("srv.entity"), verifrt.Uint("srv.feature")
		cliFeat := verifrt.Uint("cli.feature")
		verifrt.Assume(verifrt.All(srvEnt <= 3, srvFeat <= 4, cliFeat <= 4))
		srv := &model.FeatureAddressType{Entity: []model.AddressEntityType{model.AddressEntityType(srvEnt)}, Feature: util.Ptr(model.AddressFeatureType(srvFeat))}
		if verifrt.Concrete(verifrt.Bool("srv.device-given")) {
			srv.Device = util.Ptr(model.AddressDeviceType("L"))
		}
		cli := &model.FeatureAddressType{Entity: []model.AddressEntityType{1}, Feature: util.Ptr(model.AddressFeatureType(cliFeat))}
		if verifrt.Concrete(verifrt.Bool("cli.device-given")) {
			cli.Device = util.Ptr(model.AddressDeviceType(dev))
		}
		ftype := model.FeatureTypeType(verifrt.Str("serverFeatureType", string(model.FeatureTypeTypeLoadControl), string(model.FeatureTypeTypeMeasurement), string(model.FeatureTypeTypeGeneric), string(model.FeatureTypeTypeSetpoint)))
		ack := verifrt.Concrete(verifrt.Bool("ack"))
		verifrt.Scenario(name)

		// reference: which local / remote features are addressed
		var srvF api.FeatureLocalInterface
		for _, f := range append(w.localServers(), w.F3) {
			fa := f.Address()
			if verifrt.Concrete(verifrt.All(srvEnt == uint(fa.Entity[0]), srvFeat == uint(*fa.Feature))) {
				srvF = f
			}
		}
		var cliF api.FeatureRemoteInterface
		for _, fid := range []uint{1, 2, 3} {
			if verifrt.Concrete(cliFeat == fid) {
				cliF = r.FeatureByAddress(vhAddr(dev, []uint{1}, fid))
			}
		}
		var cmd model.CmdType
		if op == 0 {
			cmd = model.CmdType{NodeManagementBindingRequestCall: NewNodeManagementBindingRequestCallType(cli, srv, ftype)}
		} else {
			cmd = model.CmdType{NodeManagementBindingDeleteCall: NewNodeManagementBindingDeleteCallType(cli, srv)}
		}
		h := w.hdr(vhAddr(dev, []uint{0}, 0), vhAddr("L", []uint{0}, 0), model.CmdClassifierTypeCall, ack)
		vhDeliver(r, model.DatagramType{Header: h, Payload: model.PayloadType{Cmd: []model.CmdType{cmd}}})
		verifrt.Reach("call-delivered")

		post := sm.bindingEntries
		out := vhCount(wr, w0)
		var expect bool
		if op == 0 {
			typeOK := func(t model.FeatureTypeType) bool {
				return verifrt.Concrete(verifrt.Any(verifrt.SameStr(string(t), string(ftype)), t == model.FeatureTypeTypeGeneric))
			}
			expect = srvF != nil && (srvF.Role() == model.RoleTypeServer || srvF.Role() == model.RoleTypeSpecial) && typeOK(srvF.Type()) &&
				cliF != nil && (cliF.Role() == model.RoleTypeClient || cliF.Role() == model.RoleTypeSpecial) && typeOK(cliF.Type()) &&
				!hasEntry(pre, srvF, cliF)
			if expect {
				for _, e := range pre {
					if e.ServerFeature == srvF {
						expect = false // the server feature already has a binding
					}
				}
			}
			if expect {
				verifrt.Reach("granted")
				verifrt.Assert("granted-binding-is-registered", len(post) == len(pre)+1 && hasEntry(post, srvF, cliF))
				idsOK := true
				for _, e := range pre {
					idsOK = verifrt.All(idsOK, e.Id != post[len(post)-1].Id)
				}
				verifrt.Assert("new-binding-id-is-distinct", idsOK)
				verifrt.Assert("at-most-one-binding-per-server-feature", len(sm.BindingsOnFeature(*srvF.Address())) == 1)
			} else {
				verifrt.Reach("refused")
				verifrt.Assert("refused-binding-leaves-registry-unchanged", len(post) == len(pre))
			}
		} else {
			expect = srvF != nil && cliF != nil && hasEntry(pre, srvF, cliF)
			if expect {
				verifrt.Reach("deleted")
				verifrt.Assert("delete-removes-exactly-the-addressed-pair", len(post) == len(pre)-1 && !hasEntry(post, srvF, cliF))
			} else {
				verifrt.Reach("delete-failed")
				verifrt.Assert("failing-delete-leaves-registry-unchanged", len(post) == len(pre))
			}
		}
		// every other entry is still there, in order
		k := 0
		kept := true
		for _, e := range pre {
			if op == 1 && expect && e.ServerFeature == srvF && e.ClientFeature == cliF {
				continue
			}
			if k >= len(post) || post[k] != e {
				kept = false
			}
			k++
		}
		verifrt.Assert("other-entries-untouched", kept)
		// answer
		if expect {
			okN := 0
			if ack {
				okN = 1
			}
			verifrt.Assert("accepted-call-answered-as-prescribed", out.okResults == okN && out.errResults == 0 && out.replies == 0)
			nEv := 0
			for _, e := range w.events[ev0:] {
				if e.EventType == api.EventTypeBindingChange {
					nEv++
				}
			}
			verifrt.Assert("one-binding-change-event", nEv == 1)
		} else {
			verifrt.Assert("rejected-call-gets-one-error-result", out.errResults == 1 && out.okResults == 0 && out.replies == 0)
		}
		verifrt.Assert("nothing-sent-to-the-other-peer", len(wo.msgs) == o0)
		verifrt.Observe("entries", len(post))

	case 2:
		verifrt.Scenario("at-most-one-binding-per-server-feature")
		if peerSel == 1 {
			return
		}
		for _, f := range w.localServers() {
			verifrt.Assert("at-most-one-binding-per-server-feature", len(sm.BindingsOnFeature(*f.Address())) <= 1)
			for p := 0; p < 2; p++ {
				for _, q := range pairs {
					if q.peer == p && q.server == f {
						verifrt.Assert("HasLocalFeatureRemoteBinding-is-exact", sm.HasLocalFeatureRemoteBinding(f.Address(), q.client.Address()) == q.has)
					}
				}
			}
		}
		verifrt.Reach("data-changed")

	case 3:
		// ---- the list reported for a peer
		verifrt.Scenario("bindings-of-peer")
		if peerSel == 1 {
			return // (the case number is wider than this operation needs)
		}
		for p := 0; p < 2; p++ {
			r, _, _ := w.peer(p)
			got := sm.Bindings(r)
			want := 0
			all := true
			for _, q := range pairs {
				if q.has && q.peer == p {
					want++
					all = all && hasEntry(got, q.server, q.client)
				}
			}
			verifrt.Assert("binding-list-of-peer-is-exact", len(got) == want && all)
			ids := true
			for i := range got {
				for j := i + 1; j < len(got); j++ {
					ids = verifrt.All(ids, got[i].Id != got[j].Id)
				}
			}
			verifrt.Assert("binding-ids-distinct", ids)
		}
		verifrt.Reach("listed")
	}
}

func init() {
	verifrt.Register("VH_c09_race", VH_c09_race)
}

// C09 (schedules): two bind requests for the same local server feature arrive concurrently on two
// connections (or twice on one); in every interleaving the feature ends up with exactly one binding,
// one request is granted and the other refused.
func VH_c09_race() {
	same := verifrt.ShardChoice("connections", 2) == 1
	if same {
		verifrt.Scenario("one-peer-same-request-twice")
	} else {
		verifrt.Scenario("two-peers")
	}
	w := vhNewWorld(vhWorldOpts{})
	bm := w.L.BindingManager().(*BindingManager)
	nmL := vhAddr("L", []uint{0}, 0)
	ft := model.FeatureTypeTypeLoadControl
	mk := func(p int, cliFeat uint) model.DatagramType {
		_, _, dev := w.peer(p)
		req := &model.NodeManagementBindingRequestCallType{BindingRequest: &model.BindingManagementRequestCallType{
			ClientAddress: vhAddr(dev, []uint{1}, cliFeat), ServerAddress: w.F1.Address(), ServerFeatureType: &ft}}
		return model.DatagramType{Header: w.hdr(vhAddr(dev, []uint{0}, 0), nmL, model.CmdClassifierTypeCall, true), Payload: model.PayloadType{Cmd: []model.CmdType{{NodeManagementBindingRequestCall: req}}}}
	}
	a0, b0 := len(w.wA.msgs), len(w.wB.msgs)
	second := 1
	if same {
		second = 0
	}
	d1, d2 := mk(0, 1), mk(second, 1)
	r1, _, _ := w.peer(0)
	r2, _, _ := w.peer(second)
	verifrt.Go(func() { vhDeliver(r1, d1) })
	verifrt.Go(func() { vhDeliver(r2, d2) })
	verifrt.PreemptOn()
	verifrt.WaitIdle()
	verifrt.PreemptOff()
	verifrt.Reach("both-done")
	n := 0
	ids := map[uint64]bool{}
	for _, e := range bm.bindingEntries {
		if e.ServerFeature == w.F1 {
			n++
		}
		ids[e.Id] = true
	}
	verifrt.Assert("server-feature-has-exactly-one-binding", n == 1)
	verifrt.Assert("binding-ids-distinct", len(ids) == len(bm.bindingEntries))
	oa, ob := vhCount(w.wA, a0), vhCount(w.wB, b0)
	ok, bad := oa.okResults+ob.okResults, oa.errResults+ob.errResults
	verifrt.Assert("one-request-granted-one-refused", ok == 1 && bad == 1)
	verifrt.Assert("no-thread-left-blocked", verifrt.BlockedThreads() == 0)
}
