package spine

import (
	"github.com/enbility/spine-go/api"
	"github.com/enbility/spine-go/model"
	"github.com/enbility/spine-go/util"
	"github.com/enbility/spine-go/verifrt"
)

func init() {
	verifrt.Register("VH_c03_writegate", VH_c03_writegate)
	verifrt.Register("VH_c03_revoke", VH_c03_revoke)
}

func vhLimitList(id uint, active bool) *model.LoadControlLimitListDataType {
	return &model.LoadControlLimitListDataType{LoadControlLimitData: []model.LoadControlLimitDataType{{
		LimitId: util.Ptr(model.LoadControlLimitIdType(id)), IsLimitChangeable: util.Ptr(true), IsLimitActive: util.Ptr(active)}}}
}

func (w *vhWorld) dataChangeEvents(from int) int {
	n := 0
	for _, e := range w.events[from:] {
		if e.EventType == api.EventTypeDataChange {
			n++
		}
	}
	return n
}

// C03 (inductive step): a write changes data only with a binding of exactly the writing feature and write permission.
func VH_c03_writegate() {
	cs := verifrt.ShardChoice("case", 16)
	f1w, f4w, p, ackB := cs&1 != 0, cs&2 != 0, (cs>>2)&1, cs&8 != 0
	w := vhNewWorld(vhWorldOpts{secondEntity: true, f1ReadOnly: !f1w, f4ReadOnly: !f4w})
	bm := w.L.BindingManager().(*BindingManager)
	sm := w.L.SubscriptionManager().(*SubscriptionManager)
	pairs := w.registryPairs()
	counter := vhChooseRegistry("bind", pairs, 3, -1)
	for i, a := range pairs {
		for _, b := range pairs[:i] {
			if a.has && b.has && a.server == b.server {
				verifrt.Assume(false)
			}
		}
	}
	vhSetBindingNum(bm, counter)
	for _, q := range pairs {
		if q.has {
			bm.bindingEntries = append(bm.bindingEntries, &api.BindingEntry{Id: q.id, ServerFeature: q.server, ClientFeature: q.client})
		}
		// every candidate pair is subscribed, so a change of data would be notified
		sm.subscriptionEntries = append(sm.subscriptionEntries, &api.SubscriptionEntry{Id: uint64(len(sm.subscriptionEntries) + 1), ServerFeature: q.server, ClientFeature: q.client})
	}
	// initial data
	w.F1.SetData(model.FunctionTypeLoadControlLimitListData, vhLimitList(1, false))
	w.F4.SetData(model.FunctionTypeLoadControlLimitListData, vhLimitList(1, false))
	w.F2.SetData(model.FunctionTypeMeasurementListData, &model.MeasurementListDataType{})

	r, wr, dev := w.peer(p)
	_, wo, _ := w.peer(1 - p)
	srcFeat := verifrt.Uint("src.feature")
	verifrt.Assume(verifrt.All(srcFeat >= 1, srcFeat <= 4))
	di := verifrt.Choice("dest", 3)
	dest := w.localServers()[di]
	fnSel := verifrt.Choice("function", 2)
	fn := model.FunctionTypeLoadControlLimitListData
	var payload model.CmdType
	newID := verifrt.Uint("limitId")
	verifrt.Assume(newID <= 9)
	switch {
	case dest == w.F2:
		fn = model.FunctionTypeMeasurementListData
		payload = model.CmdType{MeasurementListData: &model.MeasurementListDataType{MeasurementData: []model.MeasurementDataType{{MeasurementId: util.Ptr(model.MeasurementIdType(newID))}}}}
	case fnSel == 1:
		fn = model.FunctionTypeLoadControlLimitDescriptionListData
		payload = model.CmdType{LoadControlLimitDescriptionListData: &model.LoadControlLimitDescriptionListDataType{LoadControlLimitDescriptionData: []model.LoadControlLimitDescriptionDataType{{LimitId: util.Ptr(model.LoadControlLimitIdType(newID))}}}}
	default:
		payload = model.CmdType{LoadControlLimitListData: vhLimitList(newID, true)}
	}
	// the optional function element of the command: absent, naming the written function, or naming the other
	// LoadControl function (the written function is the one whose data the command carries)
	if dest != w.F2 {
		switch verifrt.Choice("cmd.function-element", 3) {
		case 1:
			payload.Function = util.Ptr(fn)
		case 2:
			other := model.FunctionTypeLoadControlLimitDescriptionListData
			if fnSel == 1 {
				other = model.FunctionTypeLoadControlLimitListData
			}
			payload.Function = util.Ptr(other)
		}
	}
	verifrt.Scenario("write/" + string(fn))

	before := verifrt.Freeze(dest.DataCopy(fn))
	w0, o0, ev0 := len(wr.msgs), len(wo.msgs), len(w.events)
	src := vhAddr(dev, []uint{1}, 0)
	src.Feature = util.Ptr(model.AddressFeatureType(srcFeat))
	h := w.hdr(src, dest.Address(), model.CmdClassifierTypeWrite, ackB)
	vhDeliver(r, model.DatagramType{Header: h, Payload: model.PayloadType{Cmd: []model.CmdType{payload}}})
	verifrt.Reach("write-delivered")

	// reference: authorised?
	writable := (dest == w.F1 && f1w && fn == model.FunctionTypeLoadControlLimitListData) || (dest == w.F4 && f4w && fn == model.FunctionTypeLoadControlLimitListData)
	bound := false
	announced := false
	for _, fid := range []uint{1, 2, 3} {
		if verifrt.Concrete(srcFeat == fid) {
			announced = true
			cf := r.FeatureByAddress(vhAddr(dev, []uint{1}, fid))
			for _, q := range pairs {
				if q.has && q.server == dest && q.client == cf {
					bound = true
				}
			}
		}
	}
	auth := writable && bound
	out := vhCount(wr, w0)
	oth := vhCount(wo, o0)
	changed := !verifrt.Concrete(verifrt.DeepEq(dest.DataCopy(fn), before))
	if !auth {
		verifrt.Reach("unauthorised")
		verifrt.Assert("unauthorised-write-leaves-data-unchanged", !changed)
		verifrt.Assert("unauthorised-write-notifies-nobody", out.notifies == 0 && oth.notifies == 0)
		verifrt.Assert("unauthorised-write-publishes-no-data-change", w.dataChangeEvents(ev0) == 0)
		if announced {
			verifrt.Assert("unauthorised-writer-gets-exactly-one-error-result", out.errResults == 1 && out.okResults == 0 && out.replies == 0)
		}
		verifrt.Assert("nothing-but-notifications-reaches-the-other-peer", len(wo.msgs)-o0 == oth.notifies)
	} else {
		verifrt.Reach("authorised")
		verifrt.Assert("authorised-full-write-is-applied", verifrt.DeepEq(dest.DataCopy(fn), vhLimitList(newID, true)))
		okN := 0
		if ackB {
			okN = 1
		}
		verifrt.Assert("authorised-write-answered-as-prescribed", out.okResults == okN && out.errResults == 0)
	}
	verifrt.Assert("data-changes-only-when-authorised", !changed || auth)
	verifrt.Observe("changed", changed)
}

// C03 (history): authorisation follows the registry: bind -> write accepted -> revoke -> write rejected.
func VH_c03_revoke() {
	how := verifrt.ShardChoice("revoke", 4)
	w := vhNewWorld(vhWorldOpts{secondEntity: true, subEntity: true})
	verifrt.Scenario([]string{"unbind-call", "disconnect", "entity-removed", "other-peer-unbinds"}[how])
	cliFeat := verifrt.Uint("cli.feature")
	verifrt.Assume(verifrt.All(cliFeat >= 1, cliFeat <= 3))
	cli := vhAddr("A", []uint{1}, 0)
	cli.Feature = util.Ptr(model.AddressFeatureType(cliFeat))
	nmA, nmL := vhAddr("A", []uint{0}, 0), vhAddr("L", []uint{0}, 0)
	write := func(id uint) vhOut {
		w0 := len(w.wA.msgs)
		h := w.hdr(cli, w.F1.Address(), model.CmdClassifierTypeWrite, true)
		vhDeliver(w.rA, model.DatagramType{Header: h, Payload: model.PayloadType{Cmd: []model.CmdType{{LoadControlLimitListData: vhLimitList(id, true)}}}})
		return vhCount(w.wA, w0)
	}
	// not yet bound
	o := write(5)
	verifrt.Assert("write-before-binding-is-rejected", o.errResults == 1 && o.okResults == 0)
	// bind
	bc := model.CmdType{NodeManagementBindingRequestCall: NewNodeManagementBindingRequestCallType(cli, w.F1.Address(), model.FeatureTypeTypeLoadControl)}
	vhDeliver(w.rA, model.DatagramType{Header: w.hdr(nmA, nmL, model.CmdClassifierTypeCall, false), Payload: model.PayloadType{Cmd: []model.CmdType{bc}}})
	granted := verifrt.Concrete(cliFeat == 1) // only feature 1 is a LoadControl client
	o = write(6)
	if granted {
		verifrt.Reach("bound")
		verifrt.Assert("write-after-binding-is-accepted", o.okResults == 1 && o.errResults == 0)
	} else {
		verifrt.Assert("write-without-granted-binding-is-rejected", o.errResults == 1 && o.okResults == 0)
	}
	// revoke
	switch how {
	case 0:
		uc := model.CmdType{NodeManagementBindingDeleteCall: NewNodeManagementBindingDeleteCallType(cli, w.F1.Address())}
		vhDeliver(w.rA, model.DatagramType{Header: w.hdr(nmA, nmL, model.CmdClassifierTypeCall, false), Payload: model.PayloadType{Cmd: []model.CmdType{uc}}})
	case 1:
		w.L.RemoveRemoteDeviceConnection("skiA")
	case 2:
		ei := vhEntInfo("A", []uint{1})
		ei.Description.LastStateChange = util.Ptr(model.NetworkManagementStateChangeTypeRemoved)
		dd := &model.NodeManagementDetailedDiscoveryDataType{
			DeviceInformation: &model.NodeManagementDetailedDiscoveryDeviceInformationType{Description: &model.NetworkManagementDeviceDescriptionDataType{DeviceAddress: &model.DeviceAddressType{Device: util.Ptr(model.AddressDeviceType("A"))}}},
			EntityInformation: []model.NodeManagementDetailedDiscoveryEntityInformationType{ei}}
		cmd := model.CmdType{Function: util.Ptr(model.FunctionTypeNodeManagementDetailedDiscoveryData), Filter: []model.FilterType{*model.NewFilterTypePartial()}, NodeManagementDetailedDiscoveryData: dd}
		vhDeliver(w.rA, model.DatagramType{Header: w.hdr(nmA, nmL, model.CmdClassifierTypeNotify, false), Payload: model.PayloadType{Cmd: []model.CmdType{cmd}}})
	case 3:
		// peer B, using the same numbers, asks to delete "its" binding: A's must stay
		cliB := vhAddr("B", []uint{1}, 0)
		cliB.Feature = util.Ptr(model.AddressFeatureType(cliFeat))
		uc := model.CmdType{NodeManagementBindingDeleteCall: NewNodeManagementBindingDeleteCallType(cliB, w.F1.Address())}
		vhDeliver(w.rB, model.DatagramType{Header: w.hdr(vhAddr("B", []uint{0}, 0), nmL, model.CmdClassifierTypeCall, false), Payload: model.PayloadType{Cmd: []model.CmdType{uc}}})
	}
	verifrt.Reach("revoked")
	before := verifrt.Freeze(w.F1.DataCopy(model.FunctionTypeLoadControlLimitListData))
	o = write(7)
	if how == 3 {
		if granted {
			verifrt.Assert("another-peers-unbind-does-not-revoke", o.okResults == 1 && o.errResults == 0)
		}
		return
	}
	verifrt.Assert("write-after-revocation-changes-nothing", verifrt.DeepEq(w.F1.DataCopy(model.FunctionTypeLoadControlLimitListData), before))
	if how != 2 && how != 1 {
		verifrt.Assert("write-after-revocation-is-rejected", o.errResults == 1 && o.okResults == 0)
	} else {
		verifrt.Assert("write-after-revocation-is-not-acknowledged", o.okResults == 0)
	}
}
