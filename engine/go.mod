module symgo

go 1.23

require (
	github.com/rickb777/date v1.21.1
	golang.org/x/tools v0.29.0
)

require (
	github.com/rickb777/plural v1.4.2 // indirect
	golang.org/x/mod v0.22.0 // indirect
	golang.org/x/sync v0.10.0 // indirect
)
