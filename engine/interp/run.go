package interp

// Loading /repo with overlays, building SSA, and exploring one harness.

import (
	"fmt"
	"go/token"
	"go/types"
	"os"
	"path/filepath"
	"regexp"
	"runtime"
	"runtime/debug"
	"sort"
	"strings"
	"time"

	"golang.org/x/tools/go/packages"
	"golang.org/x/tools/go/ssa"
	"golang.org/x/tools/go/ssa/ssautil"
)

const modPath = "github.com/enbility/spine-go"

type Program struct {
	Prog *ssa.Program
	Pkgs map[string]*ssa.Package
	Load time.Duration
}

var interpretedPkgs = []string{
	modPath + "/spine", modPath + "/model", modPath + "/api", modPath + "/util", modPath + "/verifrt",
	"github.com/enbility/ship-go/logging", "github.com/golanguzb70/lrucache", "github.com/rickb777/date/period", "github.com/rickb777/plural",
	"errors", "slices", "cmp",
}

// LoadProgram loads repoDir/<pkgs> with the overlay (virtual path -> real file).
func LoadProgram(repoDir string, overlay map[string]string, patterns []string) (*Program, error) {
	t0 := time.Now()
	ov := map[string][]byte{}
	for virt, real := range overlay {
		b, err := os.ReadFile(real)
		if err != nil {
			return nil, err
		}
		ov[virt] = b
	}
	cfg := &packages.Config{
		Mode:       packages.LoadAllSyntax,
		Dir:        repoDir,
		Overlay:    ov,
		BuildFlags: []string{"-tags=verif"},
		Env:        append(os.Environ(), "GOFLAGS=-mod=mod", "GOPROXY=off", "GOSUMDB=off", "GOTOOLCHAIN=local"),
	}
	initial, err := packages.Load(cfg, patterns...)
	if err != nil {
		return nil, err
	}
	var errs []string
	packages.Visit(initial, nil, func(p *packages.Package) {
		for _, e := range p.Errors {
			errs = append(errs, e.Error())
		}
	})
	if len(errs) > 0 {
		return nil, fmt.Errorf("package errors:\n%s", strings.Join(errs, "\n"))
	}
	prog, _ := ssautil.AllPackages(initial, ssa.InstantiateGenerics)
	for _, w := range interpretedPkgs {
		Whitelist[w] = true
	}
	Subject[modPath+"/spine"] = true
	Subject[modPath+"/model"] = true
	Subject[modPath+"/util"] = true
	Subject[modPath+"/api"] = true
	P := &Program{Prog: prog, Pkgs: map[string]*ssa.Package{}}
	for _, p := range prog.AllPackages() {
		pp := p.Pkg.Path()
		if Whitelist[pp] || pp == "time" || pp == "runtime" || pp == "sort" || pp == "strings" || pp == "math" {
			p.Build()
		}
		P.Pkgs[pp] = p
	}
	FuncWhitelist = func(fn *ssa.Function) bool {
		pp := pkgPathOf(fn)
		if pp == "time" {
			if r := fn.Signature.Recv(); r != nil {
				if n, ok := r.Type().(*types.Named); ok && n.Obj().Name() == "Duration" {
					return true
				}
			}
			switch fn.Name() {
			case "lessThanHalf", "fmtFrac", "fmtInt":
				return true
			}
		}
		return false
	}
	P.Load = time.Since(t0)
	return P, nil
}

func classifyPanic(p interface{}) (kind string, msg string) {
	switch x := p.(type) {
	case pathPruned:
		return "pruned", x.why
	case pathAbort:
		return "abort", x.why
	case unsupported:
		return "unsupported", x.what
	case engineError:
		return "engine", x.msg
	case schedAbort:
		return "schedabort", ""
	case killT:
		return "kill", ""
	case targetPanic:
		return "panic", toString(x.v)
	case nilDeref:
		return "nilderef", x.site
	case runtimeErr:
		return "panic", x.Error()
	case *runtime.TypeAssertionError:
		return "engine", "host type assertion: " + x.Error()
	case runtime.Error:
		return "panic", x.Error()
	case string:
		if strings.HasPrefix(x, "interface conversion") || strings.HasPrefix(x, "method invoked") || strings.HasPrefix(x, "value method") || strings.HasPrefix(x, "reflect") {
			return "panic", x
		}
		return "engine", x
	default:
		return "engine", fmt.Sprintf("%T: %v", p, p)
	}
}

var addrRe = regexp.MustCompile(`0x[0-9a-f]+`)
var numRe = regexp.MustCompile(`[0-9]+`)

// panicSiteOf builds a stable site key: the panicking function plus what happened (no line numbers, addresses or values).
func panicSiteOf(ex *Explorer, kind, detail string) string {
	if kind == "nilderef" {
		return detail // already "function what"
	}
	msg := detail
	if ex.panicText != "" {
		msg = ex.panicText
	}
	msg = addrRe.ReplaceAllString(msg, "")
	msg = numRe.ReplaceAllString(msg, "N")
	if len(msg) > 120 {
		msg = msg[:120]
	}
	fn := ex.panicFn
	if strings.HasPrefix(detail, "runtime error") || fn != "" {
		return fn + " " + msg
	}
	return msg
}

func (P *Program) newInterpreter() *interpreter {
	i := &interpreter{
		prog:       P.Prog,
		globals:    make(map[*ssa.Global]*value),
		sizes:      &types.StdSizes{WordSize: 8, MaxAlign: 8},
		goroutines: 1,
	}
	runtimePkg := P.Prog.ImportedPackage("runtime")
	i.runtimeErrorString = runtimePkg.Type("errorString").Object().Type()
	initReflect(i)
	for _, pkg := range P.Prog.AllPackages() {
		for _, m := range pkg.Members {
			if v, ok := m.(*ssa.Global); ok {
				cell := zero(mustDeref(v.Type()))
				i.globals[v] = &cell
			}
		}
	}
	return i
}

// runOnce executes the harness once under the current prefix.
func (P *Program) runOnce(entry *ssa.Function, initPkgs []*ssa.Package, ex *Explorer) (outcome string, detail string) {
	i := P.newInterpreter()
	RD.reset()
	SC = newSched(i, ex.cfg.Preempt)
	onceRan = map[*value]bool{}
	onceDone = map[*value]bool{}
	if lp := P.Prog.ImportedPackage("github.com/enbility/ship-go/logging"); lp != nil {
		if g, ok := lp.Members["mux"].(*ssa.Global); ok {
			SC.quiet[i.globals[g]] = true
		}
	}
	defer SC.killAll()
	defer func() {
		if p := recover(); p != nil {
			k, m := classifyPanic(p)
			if k == "schedabort" {
				// a spawned thread panicked or the schedule deadlocked
				if len(SC.ThreadPanics) > 0 {
					k, m = classifyPanic(SC.ThreadPanics[0].p)
				} else if SC.Deadlock {
					k, m = "deadlock", SC.describe()
				}
			}
			if (k == "engine" || k == "unsupported") && os.Getenv("SYMGO_DEBUG") != "" {
				fmt.Fprintf(os.Stderr, "ENGINE PANIC (%s): %v\n%s\n", k, p, ex.panicTrace)
			}
			_ = debug.Stack
			outcome, detail = k, m
		}
	}()
	t0 := time.Now()
	for _, p := range initPkgs {
		if f := p.Func("init"); f != nil {
			call(i, nil, token.NoPos, f, nil)
		}
	}
	ex.InitTime += time.Since(t0)
	call(i, nil, token.NoPos, entry, nil)
	if len(SC.ThreadPanics) > 0 {
		k, m := classifyPanic(SC.ThreadPanics[0].p)
		return k, m
	}
	if SC.Deadlock {
		return "deadlock", SC.describe()
	}
	return "ok", ""
}

// Explore runs the harness function over all feasible paths.
func (P *Program) Explore(pkgPath, fnName string, cfg Config) (*RunResult, error) {
	pkg := P.Pkgs[pkgPath]
	if pkg == nil {
		return nil, fmt.Errorf("package %s not loaded", pkgPath)
	}
	entry := pkg.Func(fnName)
	if entry == nil {
		return nil, fmt.Errorf("harness %s not found in %s", fnName, pkgPath)
	}
	var initPkgs []*ssa.Package
	for _, w := range []string{"github.com/enbility/ship-go/logging", "github.com/golanguzb70/lrucache", "github.com/rickb777/plural", "github.com/rickb777/date/period", modPath + "/util", modPath + "/model", modPath + "/api", modPath + "/spine"} {
		if p := P.Pkgs[w]; p != nil {
			initPkgs = append(initPkgs, p)
		}
		if w == pkgPath {
			break
		}
	}
	ex := NewExplorer(cfg, fnName)
	EX = ex
	defer ex.sol.Close()
	ex.work = [][]int{{}}
	sharded := cfg.Shards <= 1
	pShard, pShards := cfg.Shard, cfg.Shards // prefix sharding
	if cfg.SubShards > 1 {
		pShard, pShards = cfg.Shard%cfg.SubShards, cfg.SubShards
	}
	for len(ex.work) > 0 {
		if ex.Paths >= ex.cfg.MaxPaths {
			ex.Truncated = true
			ex.Inconclusive["path budget exhausted"]++
			break
		}
		if !cfg.Deadline.IsZero() && time.Now().After(cfg.Deadline) {
			ex.Truncated = true
			ex.Inconclusive["time budget exhausted"]++
			break
		}
		// sharding: breadth-first until enough open prefixes, then keep every n-th
		if !sharded && ex.shardedByChoice && cfg.SubShards <= 1 {
			sharded = true
		}
		if !sharded && len(ex.work) >= 4*pShards {
			var mine [][]int
			for k, w := range ex.work {
				if k%pShards == pShard {
					mine = append(mine, w)
				}
			}
			ex.work = mine
			sharded = true
			if pShard != 0 {
				// counts of the common phase belong to shard 0
				ex.Paths, ex.Pruned = 0, 0
			}
			continue
		}
		var prefix []int
		if !sharded {
			prefix, ex.work = ex.work[0], ex.work[1:]
		} else {
			n := len(ex.work) - 1
			prefix, ex.work = ex.work[n], ex.work[:n]
		}
		ex.beginPath(prefix)
		outcome, detail := P.runOnce(entry, initPkgs, ex)
		switch outcome {
		case "ok":
			ex.Paths++
		case "pruned":
			ex.Pruned++
		case "panic", "nilderef":
			ex.Paths++
			site := panicSiteOf(ex, outcome, detail)
			ex.recordViolation("panic", "no-panic", site, "", nil)
			ex.reach("panic:" + site)
		case "deadlock":
			ex.Paths++
			ex.recordViolation("deadlock", "no-deadlock", "", detail, nil)
		case "unsupported", "abort", "engine":
			ex.Paths++
			ex.noteInconclusive(outcome + ": " + detail)
		default:
			ex.noteInconclusive("outcome " + outcome + ": " + detail)
		}
		if outcome != "pruned" {
			ex.Scenarios[ex.scenario]++
			// overflow obligations (int mode)
			if len(ex.overflowObl) > 0 {
				all := tTrue
				for _, o := range ex.overflowObl {
					all = mkAnd(all, o)
				}
				switch ex.sol.CheckWith(mkNot(all)) {
				case "unsat":
				case "sat":
					ex.noteInconclusive("side obligation violated (integer overflow in int mode / conversion out of range)")
				default:
					ex.noteInconclusive("side obligation unknown")
				}
			}
			if ex.pathInconclusive == "" && (outcome == "ok") && len(ex.Witnesses) < cfg.Witnesses {
				if w := ex.witness(); w != nil {
					ex.Witnesses = append(ex.Witnesses, w)
				}
			}
		}
		if ex.steps > ex.MaxStepsSeen {
			ex.MaxStepsSeen = ex.steps
		}
		ex.endPath()
		if cfg.Verbose && (ex.Paths+ex.Pruned)%200 == 0 {
			fmt.Fprintf(os.Stderr, "[%s] paths=%d pruned=%d work=%d queries=%d viol=%d\n", fnName, ex.Paths, ex.Pruned, len(ex.work), ex.sol.Queries, len(ex.Viol))
		}
	}
	r := ex.Result()
	return r, nil
}

func RepoOverlay(repoDir, verifDir string, extra map[string]string) map[string]string {
	ov := map[string]string{}
	add := func(glob, dstDir, prefix string) {
		files, _ := filepath.Glob(glob)
		sort.Strings(files)
		for _, f := range files {
			ov[filepath.Join(dstDir, prefix+filepath.Base(f))] = f
		}
	}
	add(filepath.Join(verifDir, "rt/verifrt/*.go"), filepath.Join(repoDir, "verifrt"), "")
	add(filepath.Join(verifDir, "harness/spine/*.go"), filepath.Join(repoDir, "spine"), "zz_verif_")
	add(filepath.Join(verifDir, "harness/model/*.go"), filepath.Join(repoDir, "model"), "zz_verif_")
	for k, v := range extra {
		ov[k] = v
	}
	return ov
}
