package interp

// Path exploration by re-execution with decision prefixes; assertions,
// assumptions, reachability labels, violations, witnesses.

import (
	"fmt"
	"math"
	"os"
	"sort"
	"strings"
	"time"
)

type pathPruned struct{ why string }
type pathAbort struct{ why string }     // inconclusive: unsupported feature, budget, unknown
type unsupported struct{ what string }  // raised by the engine for things it cannot interpret

func (u unsupported) Error() string { return "unsupported: " + u.what }

type Config struct {
	Solver        string
	QueryTimeout  int // ms
	MaxPaths      int
	MaxSteps      int64
	Preempt       int
	Witnesses     int  // number of path witnesses to produce for the native cross-check
	IntMode       bool // mathematical integers with overflow obligations
	Shard, Shards int
	SubShards     int // each ShardChoice residue is further split by decision prefix into this many workers
	Deadline      time.Time
	Params        map[string]int
	Verbose       bool
}

type Violation struct {
	Harness   string            `json:"harness"`
	Scenario  string            `json:"scenario"`
	Label     string            `json:"label"`
	Kind      string            `json:"kind"` // assert | panic | deadlock
	PanicSite string            `json:"panic_site,omitempty"`
	Detail    string            `json:"detail,omitempty"`
	Inputs    map[string]string `json:"inputs"`
	Schedule  []int             `json:"schedule"`
	Path      []int             `json:"path"`
	Count     int               `json:"count"`
}

func (v *Violation) Key() string {
	return v.Harness + "|" + v.Scenario + "|" + v.Kind + "|" + v.Label + "|" + v.PanicSite
}

type Witness struct {
	Harness  string            `json:"harness"`
	Scenario string            `json:"scenario"`
	Inputs   map[string]string `json:"inputs"`
	Schedule []int             `json:"schedule"`
	Path     []int             `json:"path"`
	Observed []string          `json:"observed"` // engine's Observe log evaluated under the model
	Asserts  []string          `json:"asserts"`  // labels of assertions passed on this path
	Failed   []string          `json:"failed"`   // labels of assertions that failed on this path for every input of the path
	Reached  []string          `json:"reached"`
}

type obsEntry struct {
	name string
	val  value
	typ  string
}

type Explorer struct {
	cfg     Config
	sol     *Solver
	harness string

	// per path
	prefix     []int
	pos        int
	pc         []*Term
	known      map[int]bool
	inputs     []*Term
	inputSeen  map[int]bool
	strInputs  map[int]bool
	signedInputs map[int]bool
	scenario   string
	schedule   []int
	observed   []obsEntry
	pathAsserts []string
	pathFailed  []string // labels that failed concretely on this path (the path goes on)
	pathReached []string
	steps      int64
	fresh      bool
	freshN     int
	decimals   map[int]int
	spec       int
	nowCount   int
	lastNow    *Term
	panicTrace string
	panicFn    string
	panicText  string
	curFrame   *frame
	ForkSites  map[string]int
	InitTime   time.Duration
	noIfConv   bool
	IfConversions int
	shardedByChoice bool
	strLenUsed bool
	strLenAxioms int
	overflowObl []*Term
	pathInconclusive string

	// accumulated
	work          [][]int
	Paths         int
	Pruned        int
	Decisions     int
	Forks         int
	AssertsChecked int
	AssertsProved int
	AssertsConcrete int
	Viol          map[string]*Violation
	ViolOrder     []string
	Reach         map[string]int
	AssertLabels  map[string]int
	Scenarios     map[string]int
	Inconclusive  map[string]int
	Witnesses     []*Witness
	Funcs         map[string]int
	Stubs         map[string]int
	Assumptions   map[string]int
	MaxStepsSeen  int64
	Truncated     bool
	start         time.Time
}

var EX *Explorer

func NewExplorer(cfg Config, harness string) *Explorer {
	if cfg.Solver == "" {
		cfg.Solver = "z3"
	}
	if cfg.QueryTimeout == 0 {
		cfg.QueryTimeout = 10000
	}
	if cfg.MaxPaths == 0 {
		cfg.MaxPaths = 200000
	}
	if cfg.MaxSteps == 0 {
		cfg.MaxSteps = 20_000_000
	}
	e := &Explorer{cfg: cfg, harness: harness,
		Viol: map[string]*Violation{}, Reach: map[string]int{}, AssertLabels: map[string]int{},
		Scenarios: map[string]int{}, Inconclusive: map[string]int{}, Funcs: map[string]int{}, Stubs: map[string]int{},
		Assumptions: map[string]int{}, start: time.Now()}
	e.sol = NewSolver(cfg.Solver, cfg.QueryTimeout)
	if os.Getenv("SYMGO_FORKSITES") != "" {
		e.ForkSites = map[string]int{}
	}
	if f := os.Getenv("SYMGO_SMTLOG"); f != "" {
		w, _ := os.Create(f)
		e.sol.LogW = w
	}
	return e
}

func (e *Explorer) beginPath(prefix []int) {
	e.prefix = prefix
	e.pos = 0
	e.pc = e.pc[:0]
	e.known = map[int]bool{}
	e.inputs = nil
	e.inputSeen = map[int]bool{}
	e.strInputs = map[int]bool{}
	e.signedInputs = map[int]bool{}
	e.scenario = ""
	e.schedule = nil
	e.observed = nil
	e.pathAsserts = nil
	e.pathFailed = nil
	e.pathReached = nil
	e.steps = 0
	e.overflowObl = nil
	e.pathInconclusive = ""
	e.freshN = 0
	e.nowCount = 0
	e.lastNow = nil
	e.panicTrace = ""
	e.panicFn, e.panicText = "", ""
	e.decimals = map[int]int{}
	e.strLenUsed = false
	e.sol.Push()
}

func (e *Explorer) endPath() {
	e.sol.Pop()
}

func (e *Explorer) setKnown(t *Term, v bool) {
	if t.isConst() {
		return
	}
	switch {
	case t.op == "not":
		e.setKnown(t.args[0], !v)
		return
	case t.op == "and" && v:
		e.setKnown(t.args[0], true)
		e.setKnown(t.args[1], true)
	case t.op == "or" && !v:
		e.setKnown(t.args[0], false)
		e.setKnown(t.args[1], false)
	}
	e.known[t.id] = v
}

func (e *Explorer) lookupKnown(t *Term) (bool, bool) {
	if t.isConst() {
		return t.bval, true
	}
	if t.op == "not" {
		v, ok := e.lookupKnown(t.args[0])
		return !v, ok
	}
	if v, ok := e.known[t.id]; ok {
		return v, true
	}
	switch t.op {
	case "and":
		a, oka := e.lookupKnown(t.args[0])
		b, okb := e.lookupKnown(t.args[1])
		if (oka && !a) || (okb && !b) {
			return false, true
		}
		if oka && okb {
			return true, true
		}
	case "or":
		a, oka := e.lookupKnown(t.args[0])
		b, okb := e.lookupKnown(t.args[1])
		if (oka && a) || (okb && b) {
			return true, true
		}
		if oka && okb {
			return false, true
		}
	}
	return false, false
}

func (e *Explorer) addPC(lit *Term) {
	if lit.isConst() {
		return
	}
	e.pc = append(e.pc, lit)
	e.sol.Assert(lit)
	e.setKnown(lit, true)
}

// sideObligation records a condition under which a rewrite or an integer-mode
// operation is exact; all of them are checked at the end of the path.
func (e *Explorer) sideObligation(c *Term, why string) {
	if e.spec > 0 {
		panic(specAbort{"side obligation inside a speculative region"})
	}
	if c.isConst() {
		if !c.bval {
			e.noteInconclusive("side obligation false: " + why)
		}
		return
	}
	for _, o := range e.overflowObl {
		if o == c {
			return
		}
	}
	e.overflowObl = append(e.overflowObl, c)
}

func (e *Explorer) noteInconclusive(why string) {
	e.Inconclusive[why]++
	if e.pathInconclusive == "" {
		e.pathInconclusive = why
	}
}

// takeDecision consumes the next prefix entry or, if the prefix is
// exhausted, calls fresh() to make a new decision (which may push
// alternatives on the work list).
func (e *Explorer) takeDecision(fresh func() int) int {
	if e.pos < len(e.prefix) {
		d := e.prefix[e.pos]
		e.pos++
		e.fresh = false
		return d
	}
	e.fresh = true
	d := fresh()
	e.prefix = append(e.prefix[:e.pos:e.pos], d)
	e.pos++
	e.Decisions++
	return d
}

func (e *Explorer) pushAlt(d int) {
	if e.ForkSites != nil && e.curFrame != nil && e.curFrame.cur != nil {
		fr := e.curFrame
		p := fr.i.prog.Fset.Position(fr.cur.Pos())
		k := fmt.Sprintf("%s %s:%d", fr.fn.Name(), shortPos(p.Filename), p.Line)
		if fr.caller != nil && fr.caller.cur != nil {
			q := fr.i.prog.Fset.Position(fr.caller.cur.Pos())
			k += fmt.Sprintf(" <- %s:%d", fr.caller.fn.Name(), q.Line)
		}
		e.ForkSites[k]++
	}
	alt := append(append(make([]int, 0, e.pos+1), e.prefix[:e.pos]...), d)
	e.work = append(e.work, alt)
	e.Forks++
}

// pushAssume marks lit as known during speculative execution; popAssume undoes it.
func (e *Explorer) pushAssume(lit *Term) map[int]*bool {
	undo := map[int]*bool{}
	var set func(t *Term, v bool)
	set = func(t *Term, v bool) {
		if t.isConst() {
			return
		}
		switch {
		case t.op == "not":
			set(t.args[0], !v)
			return
		case t.op == "and" && v:
			set(t.args[0], true)
			set(t.args[1], true)
		case t.op == "or" && !v:
			set(t.args[0], false)
			set(t.args[1], false)
		}
		if _, done := undo[t.id]; !done {
			if old, ok := e.known[t.id]; ok {
				o := old
				undo[t.id] = &o
			} else {
				undo[t.id] = nil
			}
		}
		e.known[t.id] = v
	}
	set(lit, true)
	return undo
}

func (e *Explorer) popAssume(undo map[int]*bool) {
	for id, old := range undo {
		if old == nil {
			delete(e.known, id)
		} else {
			e.known[id] = *old
		}
	}
}

// decide returns a concrete truth value for cond on this path, forking when
// both values are feasible under the path condition.
func (e *Explorer) decide(cond *Term) bool {
	if v, ok := e.lookupKnown(cond); ok {
		return v
	}
	if e.spec > 0 {
		panic(specAbort{"undetermined condition inside a speculative region"})
	}
	d := e.takeDecision(func() int {
		rt := e.sol.CheckWith(cond)
		switch rt {
		case "unsat":
			return 0
		case "sat":
			rf := e.sol.CheckWith(mkNot(cond))
			switch rf {
			case "sat":
				e.pushAlt(0)
			case "unsat":
			default:
				e.noteInconclusive("solver unknown on branch")
			}
			return 1
		default:
			e.noteInconclusive("solver unknown on branch")
			rf := e.sol.CheckWith(mkNot(cond))
			if rf == "sat" {
				return 0
			}
			return 1
		}
	})
	if d == 1 {
		e.addPC(cond)
		return true
	}
	e.addPC(mkNot(cond))
	return false
}

// decideN makes an n-way non-data decision (schedule, select).
func (e *Explorer) decideN(n int, sched bool) int {
	if n <= 1 {
		return 0
	}
	d := e.takeDecision(func() int {
		for k := n - 1; k >= 1; k-- {
			e.pushAlt(k)
		}
		return 0
	})
	if sched {
		e.schedule = append(e.schedule, d)
	}
	return d
}

// assume adds cond to the path condition; prunes the path if infeasible.
func (e *Explorer) assume(cond *Term, what string) {
	if e.spec > 0 {
		panic(specAbort{"assumption inside a speculative region"})
	}
	if v, ok := e.lookupKnown(cond); ok {
		if !v {
			panic(pathPruned{what})
		}
		return
	}
	d := e.takeDecision(func() int {
		switch e.sol.CheckWith(cond) {
		case "sat":
			return 1
		case "unsat":
			return 0
		default:
			e.noteInconclusive("solver unknown on assumption")
			return 1
		}
	})
	if d == 0 {
		panic(pathPruned{what})
	}
	e.addPC(cond)
}

func (e *Explorer) declareInput(t *Term, isStr bool) {
	if !e.inputSeen[t.id] {
		e.inputSeen[t.id] = true
		e.inputs = append(e.inputs, t)
		if isStr {
			e.strInputs[t.id] = true
		}
	}
}

func formatModelValue(mv ModelValue, isStr bool) string {
	switch mv.Sort.k {
	case sBool:
		if mv.Bool {
			return "true"
		}
		return "false"
	case sBV:
		return mv.Int.String()
	case sInt:
		if isStr {
			return strForID(mv.Int.Int64())
		}
		return mv.Int.String()
	case sFP:
		return fmt.Sprintf("0x%016x", math.Float64bits(mv.Float))
	}
	return "?"
}

// model returns the values of this path's inputs under pc ∧ extra, or nil.
func (e *Explorer) model(extra *Term, also []*Term) (map[string]string, []ModelValue, bool) {
	e.sol.Push()
	defer e.sol.Pop()
	if extra != nil {
		e.sol.Assert(extra)
	}
	if r := e.sol.Check(); r != "sat" {
		return nil, nil, false
	}
	vals, err := e.sol.GetValues(append(append([]*Term{}, e.inputs...), also...))
	if err != nil {
		e.noteInconclusive("model read: " + err.Error())
		return nil, nil, false
	}
	m := map[string]string{}
	for i, t := range e.inputs {
		if e.signedInputs[t.id] && vals[i].Sort.k == sBV {
			m[t.name] = toSigned(vals[i].Int, vals[i].Sort.w).String()
			continue
		}
		m[t.name] = formatModelValue(vals[i], e.strInputs[t.id])
	}
	return m, vals[len(e.inputs):], true
}

func (e *Explorer) recordViolation(kind, label, site, detail string, extra *Term) {
	v := &Violation{Harness: e.harness, Scenario: e.scenario, Label: label, Kind: kind, PanicSite: site, Detail: detail}
	k := v.Key()
	if old, ok := e.Viol[k]; ok {
		old.Count++
		return
	}
	m, _, ok := e.model(extra, nil)
	if !ok {
		e.noteInconclusive("no model for violation " + label)
		return
	}
	v.Inputs = m
	v.Schedule = append([]int{}, e.schedule...)
	v.Path = append([]int{}, e.prefix[:e.pos]...)
	v.Count = 1
	e.Viol[k] = v
	e.ViolOrder = append(e.ViolOrder, k)
}

// assert checks cond under the path condition.
func (e *Explorer) assert(label string, cond value) {
	if e.cfg.Verbose {
		t0 := time.Now()
		defer func() {
			if d := time.Since(t0); d > 2*time.Second {
				fmt.Fprintf(os.Stderr, "[%s/%s] assertion %s took %v\n", e.harness, e.scenario, label, d)
			}
		}()
	}
	e.AssertLabels[label]++
	switch c := cond.(type) {
	case bool:
		e.AssertsConcrete++
		if !c {
			e.recordViolation("assert", label, "", "concrete on path", nil)
			e.pathFailed = append(e.pathFailed, label)
		} else {
			e.pathAsserts = append(e.pathAsserts, label)
		}
	case symBool:
		if v, ok := e.lookupKnown(c.t); ok {
			e.AssertsConcrete++
			if !v {
				e.recordViolation("assert", label, "", "", nil)
				e.pathFailed = append(e.pathFailed, label)
			} else {
				e.pathAsserts = append(e.pathAsserts, label)
			}
			return
		}
		neg := mkNot(c.t)
		d := e.takeDecision(func() int {
			e.AssertsChecked++
			switch e.sol.CheckWith(neg) {
			case "unsat":
				return 0
			case "sat":
				return 1
			default:
				return 2
			}
		})
		fresh := e.fresh
		switch d {
		case 0:
			if fresh {
				e.AssertsProved++
			}
			e.pathAsserts = append(e.pathAsserts, label)
			e.setKnown(c.t, true)
		case 1:
			if fresh {
				e.recordViolation("assert", label, "", "", neg)
			}
			// continue under the assumption that the assertion holds, if possible
			e.assume(c.t, "after failed assertion "+label)
		case 2:
			e.noteInconclusive("solver unknown on assertion " + label)
		}
	default:
		panic(unsupported{fmt.Sprintf("assert on %T", cond)})
	}
}

func (e *Explorer) reach(label string) {
	e.Reach[label]++
	e.pathReached = append(e.pathReached, label)
}

func (e *Explorer) step() {
	e.steps++
	if e.steps > e.cfg.MaxSteps {
		panic(pathAbort{"instruction budget exceeded (unwinding bound)"})
	}
}

// witness produces inputs and predicted observations for the current path.
func (e *Explorer) witness() *Witness {
	var terms []*Term
	var idx []int
	for i, o := range e.observed {
		if t := termOf(o.val); t != nil {
			idx = append(idx, i)
			terms = append(terms, t)
		}
	}
	m, vals, ok := e.model(nil, terms)
	if !ok {
		return nil
	}
	w := &Witness{Harness: e.harness, Scenario: e.scenario, Inputs: m, Schedule: append([]int{}, e.schedule...), Path: append([]int{}, e.prefix[:e.pos]...),
		Asserts: e.pathAsserts, Failed: e.pathFailed, Reached: e.pathReached}
	vi := 0
	for i, o := range e.observed {
		var s string
		if vi < len(idx) && idx[vi] == i {
			_, isStr := o.val.(symStr)
			s = formatModelValue(vals[vi], isStr)
			if si, ok := o.val.(symInt); ok && vals[vi].Sort.k == sBV {
				if _, signed := kindWidth(si.k); signed {
					s = toSigned(vals[vi].Int, vals[vi].Sort.w).String()
				}
			}
			vi++
		} else {
			s = fmtObserved(o.val)
		}
		w.Observed = append(w.Observed, o.name+"="+s)
	}
	return w
}

// Summary for the driver
type RunResult struct {
	Harness       string         `json:"harness"`
	Paths         int            `json:"paths"`
	Pruned        int            `json:"pruned"`
	Decisions     int            `json:"decisions"`
	Forks         int            `json:"forks"`
	AssertsSolver int            `json:"asserts_solver"`
	AssertsProved int            `json:"asserts_proved"`
	AssertsConcrete int          `json:"asserts_concrete"`
	Queries       int            `json:"queries"`
	Sat           int            `json:"sat"`
	Unsat         int            `json:"unsat"`
	Unknown       int            `json:"unknown"`
	SolverErrors  int            `json:"solver_errors"`
	SolverSeconds float64        `json:"solver_seconds"`
	WallSeconds   float64        `json:"wall_seconds"`
	Solver        string         `json:"solver"`
	Violations    []*Violation   `json:"violations"`
	Reach         map[string]int `json:"reach"`
	AssertLabels  map[string]int `json:"assert_labels"`
	Scenarios     map[string]int `json:"scenarios"`
	Inconclusive  map[string]int `json:"inconclusive"`
	Witnesses     []*Witness     `json:"witnesses"`
	Funcs         []string       `json:"funcs"`
	Stubs         map[string]int `json:"stubs"`
	Assumptions   map[string]int `json:"assumptions"`
	MaxSteps      int64          `json:"max_steps_seen"`
	Truncated     bool           `json:"truncated"`
	Bounds        map[string]any `json:"bounds"`
	Shard         int            `json:"shard"`
	Shards        int            `json:"shards"`
	ForkSites     map[string]int `json:"fork_sites,omitempty"`
	IfConversions int            `json:"if_conversions"`
	InitSeconds   float64        `json:"init_seconds"`
}

func (e *Explorer) Result() *RunResult {
	r := &RunResult{Harness: e.harness, Paths: e.Paths, Pruned: e.Pruned, Decisions: e.Decisions, Forks: e.Forks,
		AssertsSolver: e.AssertsChecked, AssertsProved: e.AssertsProved, AssertsConcrete: e.AssertsConcrete,
		Queries: e.sol.Queries, Sat: e.sol.Sat, Unsat: e.sol.Unsat, Unknown: e.sol.Unknown, SolverErrors: e.sol.Errors,
		SolverSeconds: e.sol.Time.Seconds(), WallSeconds: time.Since(e.start).Seconds(), Solver: e.cfg.Solver,
		Reach: e.Reach, AssertLabels: e.AssertLabels, Scenarios: e.Scenarios, Inconclusive: e.Inconclusive,
		Witnesses: e.Witnesses, Stubs: e.Stubs, Assumptions: e.Assumptions, MaxSteps: e.MaxStepsSeen, Truncated: e.Truncated,
		Shard: e.cfg.Shard, Shards: e.cfg.Shards, ForkSites: e.ForkSites, IfConversions: e.IfConversions, InitSeconds: e.InitTime.Seconds()}
	for _, k := range e.ViolOrder {
		r.Violations = append(r.Violations, e.Viol[k])
	}
	for f := range e.Funcs {
		r.Funcs = append(r.Funcs, f)
	}
	sort.Strings(r.Funcs)
	r.Bounds = map[string]any{"max_paths": e.cfg.MaxPaths, "max_steps_per_path": e.cfg.MaxSteps, "preemptions": e.cfg.Preempt,
		"query_timeout_ms": e.cfg.QueryTimeout, "int_mode": e.cfg.IntMode}
	return r
}

func shortPos(s string) string {
	if i := strings.LastIndex(s, "/"); i >= 0 {
		return s[i+1:]
	}
	return s
}
