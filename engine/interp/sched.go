package interp

// Cooperative baton scheduler for interpreted goroutines: mutexes, AfterFunc
// timers, channels, select, tickers. Exactly one interpreted thread runs at
// a time; hand-over happens only at scheduling points, and every choice
// among several enabled threads is a decision of the explorer.
//
// The algorithm is mirrored line by line by the native scheduler in
// verifrt (rt/verifrt/sched_native.go) so that a decision list replays
// natively.

import (
	"fmt"
	"go/token"
	"go/types"

	"golang.org/x/tools/go/ssa"
)

const (
	stReady = iota
	stBlocked
	stDone
	stTimer     // armed timer, not yet fired
	stCancelled // stopped timer
	stWaitIdle  // main waiting for quiescence
)

type thr struct {
	id      int
	wake    chan struct{}
	state   int
	waitMu  *value
	waitWr  bool // blocked in Lock (not RLock) of waitMu
	held    int  // number of locks this thread holds
	waitCh  bool
	fn      value
	args    []value
	started bool
	isTimer bool
	harness bool // spawned by verifrt.Go
	spin    int  // consecutive receives from a closed channel without blocking in between
	name    string
	vc      vclock // happens-before vector clock (race detection)
}

type muState struct {
	writer  *thr
	readers map[*thr]int
}

type schedT struct {
	i            *interpreter
	thr          []*thr
	cur          *thr
	mus          map[*value]*muState
	timers       map[*value]*thr
	killed       bool
	aborted      bool
	ack          chan struct{}
	Preempt      int
	preemptOn    bool
	Deadlock     bool
	idleTimers   bool
	ThreadPanics []threadPanic
	Tickers      []*vchan
	TickerPeriods []value
	TickerResets  []tickerReset
	quiet        map[*value]bool
	unlockYield  bool // mutex releases are pre-emption points too (verifrt.PreemptAtUnlock)
	timersAtYield bool // armed timers may fire at every pre-emption point even outside FireTimers (default before: always)
	spawnedFIFO  bool // see pickNext (verifrt.SpawnedFIFO)
	onlyHolding  bool // lock operations are pre-emption points only while the thread holds a lock (verifrt.PreemptOnlyHolding)
	LockOps      int
}

type tickerReset struct {
	ticker int
	period value
}

type threadPanic struct {
	thread int
	p      interface{}
}

type killT struct{}

var SC *schedT

func newSched(i *interpreter, preempt int) *schedT {
	s := &schedT{i: i, mus: map[*value]*muState{}, timers: map[*value]*thr{}, ack: make(chan struct{}), Preempt: preempt, quiet: map[*value]bool{}}
	main := &thr{id: 0, wake: make(chan struct{}), state: stReady, started: true, name: "main"}
	s.thr = []*thr{main}
	s.cur = main
	return s
}

func (s *schedT) spawn(fn value, args []value, state int, name string) *thr {
	t := &thr{id: len(s.thr), wake: make(chan struct{}), state: state, fn: fn, args: args, name: name, isTimer: state == stTimer}
	s.thr = append(s.thr, t)
	if RD.on {
		RD.fork(s.cur, t)
	}
	go func() {
		<-t.wake
		defer func() {
			if p := recover(); p != nil {
				if _, ok := p.(killT); ok {
					s.ack <- struct{}{}
					return
				}
				s.ThreadPanics = append(s.ThreadPanics, threadPanic{t.id, p})
				// a panic in any goroutine ends the program: stop the path
				t.state = stDone
				s.abortToMain()
				return
			}
			t.state = stDone
			s.handOver()
		}()
		if s.killed {
			panic(killT{})
		}
		t.started = true
		call(s.i, nil, token.NoPos, t.fn, t.args)
	}()
	return t
}

// abortToMain wakes main with the abort flag set; main then unwinds.
func (s *schedT) abortToMain() {
	s.aborted = true
	m := s.thr[0]
	if m.state == stDone {
		return
	}
	m.state = stReady
	s.cur = m
	m.wake <- struct{}{}
}

func (s *schedT) enabled(includeTimers bool) []*thr {
	var out []*thr
	for _, t := range s.thr {
		if t == s.cur {
			continue
		}
		if t.state == stReady || (includeTimers && t.state == stTimer) {
			out = append(out, t)
		}
	}
	return out
}

// pickNext chooses the thread that runs after cur ended or blocked.
func (s *schedT) pickNext() *thr {
	en := s.enabled(s.idleTimers)
	if len(en) == 0 {
		if m := s.thr[0]; m.state == stWaitIdle {
			return m
		}
		return nil
	}
	if s.spawnedFIFO {
		// harness threads first (every order among them); goroutines started by the code under test run
		// afterwards in spawn order, without a fork
		var hs []*thr
		for _, t := range en {
			if t.harness || t.state == stTimer {
				hs = append(hs, t)
			}
		}
		if len(hs) == 0 {
			return en[0]
		}
		en = hs
	}
	k := 0
	if len(en) > 1 {
		k = EX.decideN(len(en), true)
	}
	return en[k]
}

func (s *schedT) handOver() {
	next := s.pickNext()
	if next == nil {
		s.Deadlock = true
		s.abortToMain()
		return
	}
	s.start(next)
}

func (s *schedT) start(t *thr) {
	if t.state == stTimer || t.state == stWaitIdle {
		t.state = stReady
	}
	s.cur = t
	t.wake <- struct{}{}
}

func (s *schedT) switchTo(next *thr) {
	cur := s.cur
	s.start(next)
	<-cur.wake
	if s.killed {
		panic(killT{})
	}
	if s.aborted && cur.id == 0 {
		panic(schedAbort{})
	}
}

type schedAbort struct{}

// yield is a pre-emption point.
func (s *schedT) yield() {
	if s.Preempt <= 0 || !s.preemptOn {
		return
	}
	en := s.enabled(s.idleTimers || s.timersAtYield)
	if len(en) == 0 {
		return
	}
	k := EX.decideN(len(en)+1, true)
	if k == 0 {
		return
	}
	s.Preempt--
	s.switchTo(en[k-1])
}

func (s *schedT) block() {
	next := s.pickNext()
	if next == nil {
		s.Deadlock = true
		if s.cur.id == 0 {
			panic(schedAbort{})
		}
		s.abortToMain()
		<-s.cur.wake
		panic(killT{})
	}
	s.switchTo(next)
}

func (s *schedT) mu(m *value) *muState {
	st := s.mus[m]
	if st == nil {
		st = &muState{readers: map[*thr]int{}}
		s.mus[m] = st
	}
	return st
}

func (s *schedT) lock(m *value, read bool) {
	s.LockOps++
	if !s.quiet[m] && (!s.onlyHolding || s.cur.held > 0) {
		s.yield()
	}
	st := s.mu(m)
	for {
		free := st.writer == nil
		if !read && free {
			// a writer also waits for readers (other than a re-entrant self, which deadlocks in Go too)
			for t, n := range st.readers {
				if n > 0 && t != nil {
					free = false
				}
			}
		}
		if read && free {
			// sync.RWMutex: a blocked Lock call excludes new readers (also a reader that holds the
			// lock already: recursive read locking deadlocks once a writer waits)
			for _, t := range s.thr {
				if t != s.cur && t.state == stBlocked && t.waitMu == m && t.waitWr {
					free = false
				}
			}
		}
		if free {
			break
		}
		cur := s.cur
		cur.state, cur.waitMu, cur.waitWr = stBlocked, m, !read
		s.block()
	}
	if read {
		st.readers[s.cur]++
	} else {
		st.writer = s.cur
	}
	s.cur.held++
	RD.acquired(m, read)
}

func (s *schedT) unlock(m *value, read bool) {
	RD.released(m, read)
	st := s.mu(m)
	if read {
		// RUnlock may be called by a different goroutine than RLock in Go; keep it simple
		if st.readers[s.cur] > 0 {
			st.readers[s.cur]--
		} else {
			ok := false
			for t, n := range st.readers {
				if n > 0 {
					st.readers[t]--
					ok = true
					break
				}
			}
			if !ok {
				panic(targetPanic{iface{types.Typ[types.String], "sync: RUnlock of unlocked RWMutex"}})
			}
		}
	} else {
		if st.writer == nil {
			panic(targetPanic{iface{types.Typ[types.String], "sync: unlock of unlocked mutex"}})
		}
		st.writer = nil
	}
	for _, t := range s.thr {
		if t.state == stBlocked && t.waitMu == m {
			t.state, t.waitMu = stReady, nil
		}
	}
	if s.cur.held > 0 {
		s.cur.held--
	}
	if s.unlockYield && !s.quiet[m] && (!s.onlyHolding || s.cur.held > 0) {
		s.yield()
	}
}

// waitIdle runs other threads until none is ready; with timers=true armed
// timers fire as well (in every order relative to the ready threads).
func (s *schedT) waitIdle(timers bool) {
	old := s.idleTimers
	s.idleTimers = timers
	defer func() { s.idleTimers = old }()
	for {
		en := s.enabled(timers)
		if len(en) == 0 {
			return
		}
		cur := s.cur
		cur.state = stWaitIdle
		next := s.pickNext()
		s.switchTo(next)
		cur.state = stReady
	}
}

func (s *schedT) killAll() {
	s.killed = true
	for _, t := range s.thr[1:] {
		if t.state != stDone {
			t.state = stDone
			t.wake <- struct{}{}
			<-s.ack
		}
	}
}

func (s *schedT) blockedThreads() []int {
	var out []int
	for _, t := range s.thr {
		if t.state == stBlocked {
			out = append(out, t.id)
		}
	}
	return out
}

// ---------------------------------------------------------------- channels

type vchan struct {
	buf    []value
	cap    int
	closed bool
	// rendezvous for unbuffered channels: a sender parks its value here
	pending []*pendingSend
	recvWaiting int
}

type pendingSend struct {
	v     value
	taken bool
	t     *thr
}

func (s *schedT) blockOnChans() {
	cur := s.cur
	cur.spin = 0
	cur.state = stBlocked
	cur.waitMu = nil
	cur.waitCh = true
	s.block()
}

func (s *schedT) wakeChanWaiters() {
	for _, t := range s.thr {
		if t.state == stBlocked && t.waitCh {
			t.state, t.waitCh = stReady, false
		}
	}
}

func chanClose(v value) {
	c, _ := v.(*vchan)
	if c == nil {
		panic(targetPanic{iface{types.Typ[types.String], "close of nil channel"}})
	}
	SC.yield()
	if c.closed {
		panic(targetPanic{iface{types.Typ[types.String], "close of closed channel"}})
	}
	c.closed = true
	RD.syncOn(c)
	SC.wakeChanWaiters()
}

func (c *vchan) canRecv() bool {
	if len(c.buf) > 0 || c.closed {
		return true
	}
	for _, p := range c.pending {
		if !p.taken {
			return true
		}
	}
	return false
}

func (c *vchan) doRecv(elem types.Type) (value, bool) {
	if len(c.buf) > 0 {
		x := c.buf[0]
		c.buf = c.buf[1:]
		return x, true
	}
	for _, p := range c.pending {
		if !p.taken {
			p.taken = true
			return p.v, true
		}
	}
	return zero(elem), false
}

// noteRecv detects a thread that spins on a closed channel (a loop whose exit was lost): after
// spinLimit consecutive closed receives without blocking the path ends with a target panic.
const spinLimit = 200

func noteRecv(ok bool) {
	if SC.cur == nil {
		return
	}
	if ok {
		SC.cur.spin = 0
		return
	}
	SC.cur.spin++
	if SC.cur.spin > spinLimit {
		SC.cur.spin = 0
		panic(targetPanic{iface{types.Typ[types.String], "busy loop: the goroutine keeps receiving from a closed channel and never blocks or returns (livelock)"}})
	}
}

func chanRecv(v value, elem types.Type) (value, bool) {
	c, _ := v.(*vchan)
	SC.yield()
	for {
		if c != nil && c.canRecv() {
			x, ok := c.doRecv(elem)
			noteRecv(ok)
			RD.syncOn(c)
			SC.wakeChanWaiters()
			return x, ok
		}
		if c != nil {
			c.recvWaiting++
		}
		SC.blockOnChans()
		if c != nil {
			c.recvWaiting--
		}
	}
}

func chanSend(v value, x value) {
	c, _ := v.(*vchan)
	SC.yield()
	if c == nil {
		for {
			SC.blockOnChans()
		}
	}
	if c.closed {
		panic(targetPanic{iface{types.Typ[types.String], "send on closed channel"}})
	}
	RD.syncOn(c)
	if len(c.buf) < c.cap {
		c.buf = append(c.buf, x)
		SC.wakeChanWaiters()
		return
	}
	defer RD.syncOn(c)
	p := &pendingSend{v: x, t: SC.cur}
	c.pending = append(c.pending, p)
	SC.wakeChanWaiters()
	for !p.taken {
		SC.blockOnChans()
		if c.closed && !p.taken {
			panic(targetPanic{iface{types.Typ[types.String], "send on closed channel"}})
		}
	}
	// remove
	for i, q := range c.pending {
		if q == p {
			c.pending = append(c.pending[:i:i], c.pending[i+1:]...)
			break
		}
	}
}

func chanSelect(fr *frame, instr *ssa.Select) value {
	SC.yield()
	for {
		var ready []int
		for i, st := range instr.States {
			c, _ := fr.get(st.Chan).(*vchan)
			if c == nil {
				continue
			}
			if st.Dir == types.RecvOnly {
				if c.canRecv() {
					ready = append(ready, i)
				}
			} else if len(c.buf) < c.cap || c.recvWaiting > 0 || c.closed {
				ready = append(ready, i)
			}
		}
		if len(ready) == 0 {
			if !instr.Blocking {
				return selectResult(fr, instr, -1, nil, false)
			}
			for _, st := range instr.States {
				if c, _ := fr.get(st.Chan).(*vchan); c != nil && st.Dir == types.RecvOnly {
					c.recvWaiting++
				}
			}
			SC.blockOnChans()
			for _, st := range instr.States {
				if c, _ := fr.get(st.Chan).(*vchan); c != nil && st.Dir == types.RecvOnly {
					c.recvWaiting--
				}
			}
			continue
		}
		k := 0
		if len(ready) > 1 {
			k = EX.decideN(len(ready), true)
		}
		i := ready[k]
		st := instr.States[i]
		c := fr.get(st.Chan).(*vchan)
		RD.syncOn(c)
		defer RD.syncOn(c)
		if st.Dir == types.RecvOnly {
			x, ok := c.doRecv(st.Chan.Type().Underlying().(*types.Chan).Elem())
			noteRecv(ok)
			SC.wakeChanWaiters()
			return selectResult(fr, instr, i, x, ok)
		}
		if c.closed {
			panic(targetPanic{iface{types.Typ[types.String], "send on closed channel"}})
		}
		if len(c.buf) < c.cap {
			c.buf = append(c.buf, fr.get(st.Send))
		} else {
			p := &pendingSend{v: fr.get(st.Send), t: SC.cur}
			c.pending = append(c.pending, p)
			SC.wakeChanWaiters()
			for !p.taken {
				SC.blockOnChans()
			}
		}
		SC.wakeChanWaiters()
		return selectResult(fr, instr, i, nil, false)
	}
}

func selectResult(fr *frame, instr *ssa.Select, chosen int, recv value, recvOk bool) value {
	r := tuple{chosen, recvOk}
	for i, st := range instr.States {
		if st.Dir == types.RecvOnly {
			var v value
			if i == chosen && recvOk {
				v = recv
			} else {
				v = zero(st.Chan.Type().Underlying().(*types.Chan).Elem())
			}
			r = append(r, v)
		}
	}
	return r
}

// ---------------------------------------------------------------- sync / time externals

func init() {
	externals["(*sync.Mutex).Lock"] = func(fr *frame, args []value) value { SC.lock(args[0].(*value), false); return nil }
	externals["(*sync.Mutex).Unlock"] = func(fr *frame, args []value) value { SC.unlock(args[0].(*value), false); return nil }
	externals["(*sync.Mutex).TryLock"] = func(fr *frame, args []value) value {
		st := SC.mu(args[0].(*value))
		if st.writer != nil {
			return false
		}
		st.writer = SC.cur
		RD.acquired(args[0].(*value), false)
		return true
	}
	externals["(*sync.RWMutex).Lock"] = externals["(*sync.Mutex).Lock"]
	externals["(*sync.RWMutex).Unlock"] = externals["(*sync.Mutex).Unlock"]
	externals["(*sync.RWMutex).RLock"] = func(fr *frame, args []value) value { SC.lock(args[0].(*value), true); return nil }
	externals["(*sync.RWMutex).RUnlock"] = func(fr *frame, args []value) value { SC.unlock(args[0].(*value), true); return nil }
	externals["(*sync.Once).Do"] = func(fr *frame, args []value) value {
		p := args[0].(*value)
		st := (*p).(structure)
		if done, _ := st[0].(uint32); done == 0 {
			// sync.Once{done atomic.Uint32 / uint32, m Mutex}: mark first (good enough without re-entrancy)
			onceDone[p] = true
		}
		RD.syncOn(p)
		if !onceRan[p] {
			onceRan[p] = true
			call(fr.i, fr, 0, args[1], nil)
		}
		RD.syncOn(p)
		return nil
	}
	externals["time.AfterFunc"] = func(fr *frame, args []value) value {
		EX.Stubs["time.AfterFunc (timer may fire at any scheduling point once armed; duration not modelled)"]++
		t := SC.spawn(args[1], nil, stTimer, "timer")
		h := new(value)
		*h = zero(fr.i.prog.ImportedPackage("time").Type("Timer").Type())
		SC.timers[h] = t
		SC.yield()
		return h
	}
	externals["(*time.Timer).Stop"] = func(fr *frame, args []value) value {
		h, _ := args[0].(*value)
		if h == nil {
			panic(targetNilDeref(fr, "(*time.Timer).Stop"))
		}
		t := SC.timers[h]
		if t != nil && t.state == stTimer {
			t.state = stCancelled
			return true
		}
		return false
	}
	externals["time.NewTicker"] = func(fr *frame, args []value) value {
		EX.Stubs["time.NewTicker (ticks delivered by the harness; period recorded)"]++
		d := args[0]
		// NewTicker panics for d <= 0
		var nonpos value
		if si, ok := d.(symInt); ok {
			nonpos = symIntBinop(token.LEQ, si, int64(0))
		} else {
			nonpos = asInt64(d) <= 0
		}
		if concretizeBool(nonpos) {
			panic(targetPanic{iface{types.Typ[types.String], "non-positive interval for NewTicker"}})
		}
		tt := fr.i.prog.ImportedPackage("time").Type("Ticker").Type()
		p := new(value)
		st := zero(tt).(structure)
		c := &vchan{cap: 1}
		st[0] = c
		*p = st
		SC.Tickers = append(SC.Tickers, c)
		SC.TickerPeriods = append(SC.TickerPeriods, d)
		return p
	}
	externals["(*time.Ticker).Stop"] = func(fr *frame, args []value) value { return nil }
	// Reset re-arms the ticker relative to the moment of the call: the next tick comes one period after the
	// call, not one period after the previous tick. Ticks are delivered by the harness; the call is recorded
	// (ticker index, new period) so that a harness can bound the effective refresh period.
	externals["(*time.Ticker).Reset"] = func(fr *frame, args []value) value {
		EX.Stubs["(*time.Ticker).Reset (recorded: the ticker is re-armed relative to the call)"]++
		p, _ := args[0].(*value)
		if p == nil {
			panic(targetNilDeref(fr, "(*time.Ticker).Reset"))
		}
		idx := -1
		if st, ok := (*p).(structure); ok {
			if c, ok := st[0].(*vchan); ok {
				for i, t := range SC.Tickers {
					if t == c {
						idx = i
					}
				}
			}
		}
		SC.TickerResets = append(SC.TickerResets, tickerReset{idx, args[1]})
		return nil
	}
	externals["time.Sleep"] = func(fr *frame, args []value) value { SC.yield(); return nil }
	externals["runtime.Gosched"] = func(fr *frame, args []value) value { SC.yield(); return nil }
}

var onceDone = map[*value]bool{}
var onceRan = map[*value]bool{}

func (s *schedT) describe() string {
	out := ""
	for _, t := range s.thr {
		out += fmt.Sprintf("[%d %s st=%d]", t.id, t.name, t.state)
	}
	return out
}
