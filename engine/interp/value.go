// Copyright 2013 The Go Authors. All rights reserved.
// Use of this source code is governed by a BSD-style
// license that can be found in the LICENSE file.

package interp

// Values
//
// All interpreter values are "boxed" in the empty interface, value.
// The range of possible dynamic types within value are:
//
// - bool
// - numbers (all built-in int/float/complex types are distinguished)
// - string
// - map[value]value --- maps for which  usesBuiltinMap(keyType)
//   *hashmap        --- maps for which !usesBuiltinMap(keyType)
// - chan value
// - []value --- slices
// - iface --- interfaces.
// - structure --- structs.  Fields are ordered and accessed by numeric indices.
// - array --- arrays.
// - *value --- pointers.  Careful: *value is a distinct type from *array etc.
// - *ssa.Function \
//   *ssa.Builtin   } --- functions.  A nil 'func' is always of type *ssa.Function.
//   *closure      /
// - tuple --- as returned by Return, Next, "value,ok" modes, etc.
// - iter --- iterators from 'range' over map or string.
// - bad --- a poison pill for locals that have gone out of scope.
// - rtype -- the interpreter's concrete implementation of reflect.Type
// - **deferred -- the address of a frame's defer stack for a Defer._Stack.
//
// Note that nil is not on this list.
//
// Pay close attention to whether or not the dynamic type is a pointer.
// The compiler cannot help you since value is an empty interface.

import (
	"bytes"
	"fmt"
	"go/types"
	"io"
	"strings"
	"unsafe"

	"golang.org/x/tools/go/ssa"
	"golang.org/x/tools/go/types/typeutil"
)

type value interface{}

type tuple []value

type array []value

type iface struct {
	t types.Type // never an "untyped" type
	v value
}

type structure []value

// For map, array, *array, slice, string or channel.
type iter interface {
	// next returns a Tuple (key, value, ok).
	// key and value are unaliased, e.g. copies of the sequence element.
	next() tuple
}

type closure struct {
	Fn  *ssa.Function
	Env []value
}

type bad struct{}

type rtype struct {
	t types.Type
}

// Hash functions and equivalence relation:

type hashable interface {
	hash(t types.Type) int
	eq(t types.Type, x interface{}) bool
}

// hashString computes the FNV hash of s.
func hashString(s string) int {
	var h uint32
	for i := 0; i < len(s); i++ {
		h ^= uint32(s[i])
		h *= 16777619
	}
	return int(h)
}

var (
	hasher = typeutil.MakeHasher()
)

// hashType returns a hash for t such that
// types.Identical(x, y) => hashType(x) == hashType(y).
func hashType(t types.Type) int {
	return int(hasher.Hash(t))
}

// usesBuiltinMap returns true if the built-in hash function and
// equivalence relation for type t are consistent with those of the
// interpreter's representation of type t.  Such types are: all basic
// types (bool, numbers, string), pointers and channels.
//
// usesBuiltinMap returns false for types that require a custom map
// implementation: interfaces, arrays and structs.
//
// Panic ensues if t is an invalid map key type: function, map or slice.
func usesBuiltinMap(t types.Type) bool {
	switch t := t.(type) {
	case *types.Basic, *types.Chan, *types.Pointer:
		return true
	case *types.Named, *types.Alias:
		return usesBuiltinMap(t.Underlying())
	case *types.Interface, *types.Array, *types.Struct:
		return false
	}
	panic(fmt.Sprintf("invalid map key type: %T", t))
}

func (x array) eq(t types.Type, _y interface{}) bool {
	y := _y.(array)
	tElt := t.Underlying().(*types.Array).Elem()
	for i, xi := range x {
		if !equals(tElt, xi, y[i]) {
			return false
		}
	}
	return true
}

func (x array) hash(t types.Type) int {
	h := 0
	tElt := t.Underlying().(*types.Array).Elem()
	for _, xi := range x {
		h += hash(t, tElt, xi)
	}
	return h
}

func (x structure) eq(t types.Type, _y interface{}) bool {
	y := _y.(structure)
	tStruct := t.Underlying().(*types.Struct)
	for i, n := 0, tStruct.NumFields(); i < n; i++ {
		if f := tStruct.Field(i); !f.Anonymous() {
			if !equals(f.Type(), x[i], y[i]) {
				return false
			}
		}
	}
	return true
}

func (x structure) hash(t types.Type) int {
	tStruct := t.Underlying().(*types.Struct)
	h := 0
	for i, n := 0, tStruct.NumFields(); i < n; i++ {
		if f := tStruct.Field(i); !f.Anonymous() {
			h += hash(t, f.Type(), x[i])
		}
	}
	return h
}

// nil-tolerant variant of types.Identical.
func sameType(x, y types.Type) bool {
	if x == nil {
		return y == nil
	}
	return y != nil && types.Identical(x, y)
}

func (x iface) eq(t types.Type, _y interface{}) bool {
	y := _y.(iface)
	if !sameType(x.t, y.t) {
		return false
	}
	if x.t == nil {
		return true
	}
	// Go decides comparability by the dynamic type, before looking at any value: two interface values of
	// one uncomparable dynamic type panic even if an early field already differs
	if _, isRT := x.v.(rtype); !isRT && !types.Comparable(x.t) { // (reflect.Type values are pointers in Go, a value type here)
		panic(targetRuntimeError(fmt.Sprintf("comparing uncomparable type %s", x.t)))
	}
	return equals(x.t, x.v, y.v)
}

func (x iface) hash(outer types.Type) int {
	return hashType(x.t)*8581 + hash(outer, x.t, x.v)
}

func (x rtype) hash(_ types.Type) int {
	return hashType(x.t)
}

func (x rtype) eq(_ types.Type, y interface{}) bool {
	return types.Identical(x.t, y.(rtype).t)
}

// equals returns true iff x and y are equal according to Go's
// linguistic equivalence relation for type t.
// In a well-typed program, the dynamic types of x and y are
// guaranteed equal.
func equals(t types.Type, x, y value) bool {
	if r, handled := symEquals(t, x, y); handled {
		return concretizeBool(r)
	}
	return concretizeBool(equalsConcrete(t, x, y))
}

func equalsConcrete(t types.Type, x, y value) value {
	switch x := x.(type) {
	case bool:
		return x == y.(bool)
	case int:
		return x == y.(int)
	case int8:
		return x == y.(int8)
	case int16:
		return x == y.(int16)
	case int32:
		return x == y.(int32)
	case int64:
		return x == y.(int64)
	case uint:
		return x == y.(uint)
	case uint8:
		return x == y.(uint8)
	case uint16:
		return x == y.(uint16)
	case uint32:
		return x == y.(uint32)
	case uint64:
		return x == y.(uint64)
	case uintptr:
		return x == y.(uintptr)
	case float32:
		return x == y.(float32)
	case float64:
		return x == y.(float64)
	case complex64:
		return x == y.(complex64)
	case complex128:
		return x == y.(complex128)
	case string:
		return x == y.(string)
	case *value:
		return x == y.(*value)
	case *vchan:
		yc, _ := y.(*vchan)
		return x == yc
	case structure:
		return x.eq(t, y)
	case array:
		return x.eq(t, y)
	case iface:
		return x.eq(t, y)
	case rtype:
		return x.eq(t, y)
	}

	// Since map, func and slice don't support comparison, this
	// case is only reachable if one of x or y is literally nil
	// (handled in eqnil) or via interface{} values.
	panic(targetRuntimeError(fmt.Sprintf("comparing uncomparable type %s", t)))
}

// Returns an integer hash of x such that equals(x, y) => hash(x) == hash(y).
// The outer type is used only for the "unhashable" panic message.
func hash(outer, t types.Type, x value) int {
	switch x := x.(type) {
	case bool:
		if x {
			return 1
		}
		return 0
	case int:
		return x
	case int8:
		return int(x)
	case int16:
		return int(x)
	case int32:
		return int(x)
	case int64:
		return int(x)
	case uint:
		return int(x)
	case uint8:
		return int(x)
	case uint16:
		return int(x)
	case uint32:
		return int(x)
	case uint64:
		return int(x)
	case uintptr:
		return int(x)
	case float32:
		return int(x)
	case float64:
		return int(x)
	case complex64:
		return int(real(x))
	case complex128:
		return int(real(x))
	case string:
		return hashString(x)
	case *value:
		return int(uintptr(unsafe.Pointer(x)))
	case structure:
		return x.hash(t)
	case array:
		return x.hash(t)
	case iface:
		return x.hash(t)
	case rtype:
		return x.hash(t)
	}
	panic(fmt.Sprintf("unhashable type %v", outer))
}

// reflect.Value struct values don't have a fixed shape, since the
// payload can be a scalar or an aggregate depending on the instance.
// So store (and load) can't simply use recursion over the shape of the
// rhs value, or the lhs, to copy the value; we need the static type
// information.  (We can't make reflect.Value a new basic data type
// because its "structness" is exposed to Go programs.)

// load returns the value of type T in *addr.
func load(T types.Type, addr *value) value {
	switch T := T.Underlying().(type) {
	case *types.Struct:
		v := (*addr).(structure)
		a := make(structure, len(v))
		for i := range a {
			a[i] = load(T.Field(i).Type(), &v[i])
		}
		return a
	case *types.Array:
		v := (*addr).(array)
		a := make(array, len(v))
		for i := range a {
			a[i] = load(T.Elem(), &v[i])
		}
		return a
	default:
		return *addr
	}
}

// store stores value v of type T into *addr.
func store(T types.Type, addr *value, v value) {
	switch T := T.Underlying().(type) {
	case *types.Struct:
		lhs := (*addr).(structure)
		rhs := v.(structure)
		for i := range lhs {
			store(T.Field(i).Type(), &lhs[i], rhs[i])
		}
	case *types.Array:
		lhs := (*addr).(array)
		rhs := v.(array)
		for i := range lhs {
			store(T.Elem(), &lhs[i], rhs[i])
		}
	default:
		*addr = v
	}
}

// Prints in the style of built-in println.
// (More or less; in gc println is actually a compiler intrinsic and
// can distinguish println(1) from println(interface{}(1)).)
func writeValue(buf *bytes.Buffer, v value) {
	switch v := v.(type) {
	case nil, bool, int, int8, int16, int32, int64, uint, uint8, uint16, uint32, uint64, uintptr, float32, float64, complex64, complex128, string:
		fmt.Fprintf(buf, "%v", v)

	case *omap:
		buf.WriteString("map[")
		sep := ""
		if v != nil {
			for _, e := range v.ents {
				buf.WriteString(sep)
				sep = " "
				writeValue(buf, e.key)
				buf.WriteString(":")
				writeValue(buf, e.val)
			}
		}
		buf.WriteString("]")

	case *vchan:
		fmt.Fprintf(buf, "%p", v) // (an address)

	case symBool:
		buf.WriteString("sym(" + v.t.smt + ")")
	case symInt:
		buf.WriteString("sym(" + v.t.smt + ")")
	case symF64:
		buf.WriteString("sym(" + v.t.smt + ")")
	case symStr:
		buf.WriteString("symstr(" + v.id.smt + ")")
	case rope:
		buf.WriteString(v.String())
	case optPtr:
		buf.WriteString("opt(" + v.present.smt + ")")

	case *value:
		if v == nil {
			buf.WriteString("<nil>")
		} else {
			fmt.Fprintf(buf, "%p", v)
		}

	case iface:
		fmt.Fprintf(buf, "(%s, ", v.t)
		writeValue(buf, v.v)
		buf.WriteString(")")

	case structure:
		buf.WriteString("{")
		for i, e := range v {
			if i > 0 {
				buf.WriteString(" ")
			}
			writeValue(buf, e)
		}
		buf.WriteString("}")

	case array:
		buf.WriteString("[")
		for i, e := range v {
			if i > 0 {
				buf.WriteString(" ")
			}
			writeValue(buf, e)
		}
		buf.WriteString("]")

	case []value:
		buf.WriteString("[")
		for i, e := range v {
			if i > 0 {
				buf.WriteString(" ")
			}
			writeValue(buf, e)
		}
		buf.WriteString("]")

	case *ssa.Function, *ssa.Builtin, *closure:
		fmt.Fprintf(buf, "%p", v) // (an address)

	case rtype:
		buf.WriteString(v.t.String())

	case tuple:
		// Unreachable in well-formed Go programs
		buf.WriteString("(")
		for i, e := range v {
			if i > 0 {
				buf.WriteString(", ")
			}
			writeValue(buf, e)
		}
		buf.WriteString(")")

	default:
		fmt.Fprintf(buf, "<%T>", v)
	}
}

// Implements printing of Go values in the style of built-in println.
func toString(v value) string {
	var b bytes.Buffer
	writeValue(&b, v)
	return b.String()
}

// ------------------------------------------------------------------------
// Iterators

type stringIter struct {
	*strings.Reader
	i int
}

func (it *stringIter) next() tuple {
	okv := make(tuple, 3)
	ch, n, err := it.ReadRune()
	ok := err != io.EOF
	okv[0] = ok
	if ok {
		okv[1] = it.i
		okv[2] = ch
	}
	it.i += n
	return okv
}

