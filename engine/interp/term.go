package interp

// SMT terms: hash-consed, constant-folded, printed as SMT-LIB2.

import (
	"fmt"
	"math"
	"math/big"
	"strings"
	"sync"
)

type sortKind uint8

const (
	sBool sortKind = iota
	sBV
	sInt
	sFP // Float64
)

type Sort struct {
	k sortKind
	w int
}

func (s Sort) String() string {
	switch s.k {
	case sBool:
		return "Bool"
	case sBV:
		return fmt.Sprintf("(_ BitVec %d)", s.w)
	case sInt:
		return "Int"
	case sFP:
		return "(_ FloatingPoint 11 53)"
	}
	return "?"
}

var (
	sortBool = Sort{sBool, 0}
	sortInt  = Sort{sInt, 0}
	sortFP   = Sort{sFP, 0}
)

func bvSort(w int) Sort { return Sort{sBV, w} }

type Term struct {
	id     int
	op     string // "const", "var", or SMT operator
	args   []*Term
	sort   Sort
	bval   bool     // const Bool
	ival   *big.Int // const BV (unsigned, < 2^w) / Int
	fval   float64  // const FP
	name   string   // var
	smt    string
	hasFP  bool
	nonLin bool
	vars   []*Term
	varsOK bool
}

var (
	termMu    sync.Mutex
	termTable = map[string]*Term{}
	termSeq   int
)

func internTerm(key string, mk func() *Term) *Term {
	termMu.Lock()
	defer termMu.Unlock()
	if t, ok := termTable[key]; ok {
		return t
	}
	t := mk()
	termSeq++
	t.id = termSeq
	for _, a := range t.args {
		if a.hasFP {
			t.hasFP = true
		}
	}
	if t.sort.k == sFP {
		t.hasFP = true
	}
	termTable[key] = t
	return t
}

func (t *Term) isConst() bool { return t.op == "const" }

var tTrue = internTerm("true", func() *Term { return &Term{op: "const", sort: sortBool, bval: true, smt: "true"} })
var tFalse = internTerm("false", func() *Term { return &Term{op: "const", sort: sortBool, bval: false, smt: "false"} })

func mkBool(b bool) *Term {
	if b {
		return tTrue
	}
	return tFalse
}

func mkBVBig(v *big.Int, w int) *Term {
	m := new(big.Int).Lsh(big.NewInt(1), uint(w))
	x := new(big.Int).Mod(v, m)
	key := fmt.Sprintf("bv%d:%s", w, x.String())
	return internTerm(key, func() *Term {
		return &Term{op: "const", sort: bvSort(w), ival: x, smt: fmt.Sprintf("(_ bv%s %d)", x.String(), w)}
	})
}

func mkBV(v uint64, w int) *Term { return mkBVBig(new(big.Int).SetUint64(v), w) }

func mkIntBig(v *big.Int) *Term {
	key := "int:" + v.String()
	return internTerm(key, func() *Term {
		s := v.String()
		if v.Sign() < 0 {
			s = "(- " + new(big.Int).Neg(v).String() + ")"
		}
		return &Term{op: "const", sort: sortInt, ival: new(big.Int).Set(v), smt: s}
	})
}

func mkInt(v int64) *Term { return mkIntBig(big.NewInt(v)) }

func mkFP(f float64) *Term {
	bits := math.Float64bits(f)
	key := fmt.Sprintf("fp:%016x", bits)
	return internTerm(key, func() *Term {
		s := fmt.Sprintf("(fp #b%01b #b%011b #b%052b)", bits>>63, (bits>>52)&0x7ff, bits&((1<<52)-1))
		return &Term{op: "const", sort: sortFP, fval: f, smt: s}
	})
}

func smtName(name string) string {
	name = strings.NewReplacer("|", "!", "\\", "!").Replace(name)
	return "|" + name + "|"
}

func mkVar(name string, s Sort) *Term {
	key := "var:" + name + ":" + s.String()
	return internTerm(key, func() *Term {
		return &Term{op: "var", sort: s, name: name, smt: smtName(name)}
	})
}

func mkApp(op string, s Sort, args ...*Term) *Term {
	var sb strings.Builder
	sb.WriteString(op)
	sb.WriteString(":")
	sb.WriteString(s.String())
	for _, a := range args {
		fmt.Fprintf(&sb, ",%d", a.id)
	}
	return internTerm(sb.String(), func() *Term {
		var b strings.Builder
		b.WriteString("(")
		b.WriteString(op)
		for _, a := range args {
			b.WriteString(" ")
			b.WriteString(a.smt)
		}
		b.WriteString(")")
		return &Term{op: op, sort: s, args: args, smt: b.String()}
	})
}

// ---------------------------------------------------------------- booleans

func mkNot(a *Term) *Term {
	if a.isConst() {
		return mkBool(!a.bval)
	}
	if a.op == "not" {
		return a.args[0]
	}
	return mkApp("not", sortBool, a)
}

func mkAnd(a, b *Term) *Term {
	if a.isConst() {
		if a.bval {
			return b
		}
		return tFalse
	}
	if b.isConst() {
		if b.bval {
			return a
		}
		return tFalse
	}
	if a == b {
		return a
	}
	if mkNot(a) == b {
		return tFalse
	}
	return mkApp("and", sortBool, a, b)
}

func mkOr(a, b *Term) *Term {
	if a.isConst() {
		if a.bval {
			return tTrue
		}
		return b
	}
	if b.isConst() {
		if b.bval {
			return tTrue
		}
		return a
	}
	if a == b {
		return a
	}
	if mkNot(a) == b {
		return tTrue
	}
	return mkApp("or", sortBool, a, b)
}

func mkImplies(a, b *Term) *Term { return mkOr(mkNot(a), b) }

func mkIte(c, a, b *Term) *Term {
	if c.isConst() {
		if c.bval {
			return a
		}
		return b
	}
	if a == b {
		return a
	}
	if a.sort.k == sBool {
		if a.isConst() && b.isConst() {
			if a.bval {
				return c
			}
			return mkNot(c)
		}
		if a.isConst() {
			if a.bval {
				return mkOr(c, b)
			}
			return mkAnd(mkNot(c), b)
		}
		if b.isConst() {
			if b.bval {
				return mkOr(mkNot(c), a)
			}
			return mkAnd(c, a)
		}
	}
	return mkApp("ite", a.sort, c, a, b)
}

func mkEq(a, b *Term) *Term {
	if a == b && a.sort.k != sFP {
		return tTrue
	}
	if a.sort != b.sort {
		panic(fmt.Sprintf("mkEq sort mismatch %v %v: %s / %s", a.sort, b.sort, a.smt, b.smt))
	}
	if a.isConst() && b.isConst() {
		switch a.sort.k {
		case sBool:
			return mkBool(a.bval == b.bval)
		case sBV, sInt:
			return mkBool(a.ival.Cmp(b.ival) == 0)
		case sFP:
			return mkBool(a.fval == b.fval)
		}
	}
	if a.sort.k == sBool {
		if a.isConst() {
			if a.bval {
				return b
			}
			return mkNot(b)
		}
		if b.isConst() {
			if b.bval {
				return a
			}
			return mkNot(a)
		}
	}
	if a.sort.k == sFP {
		return mkApp("fp.eq", sortBool, a, b)
	}
	if r := eqIntegralFP(a, b); r != nil {
		return r
	}
	if r := eqIntegralFP(b, a); r != nil {
		return r
	}
	// ite(c, k1, k2) == k  with constants: fold
	if a.op == "ite" && b.isConst() && a.args[1].isConst() && a.args[2].isConst() {
		return mkIte(a.args[0], mkEq(a.args[1], b), mkEq(a.args[2], b))
	}
	if b.op == "ite" && a.isConst() && b.args[1].isConst() && b.args[2].isConst() {
		return mkIte(b.args[0], mkEq(b.args[1], a), mkEq(b.args[2], a))
	}
	if a.id > b.id {
		a, b = b, a
	}
	return mkApp("=", sortBool, a, b)
}

// ---------------------------------------------------------------- bit-vectors and ints

func toSigned(v *big.Int, w int) *big.Int {
	half := new(big.Int).Lsh(big.NewInt(1), uint(w-1))
	if v.Cmp(half) >= 0 {
		return new(big.Int).Sub(v, new(big.Int).Lsh(big.NewInt(1), uint(w)))
	}
	return new(big.Int).Set(v)
}

// mkArith builds x op y for BV (wrapping) or Int sorts; signed selects signed
// division/remainder/shift/comparison.
func mkArith(op string, a, b *Term, signed bool) *Term {
	if a.sort != b.sort {
		panic(fmt.Sprintf("mkArith %s sort mismatch %v %v", op, a.sort, b.sort))
	}
	if a.sort.k == sInt {
		return mkIntArith(op, a, b)
	}
	w := a.sort.w
	if a.isConst() && b.isConst() {
		x, y := a.ival, b.ival
		if signed {
			x, y = toSigned(x, w), toSigned(y, w)
		}
		r := new(big.Int)
		ok := true
		switch op {
		case "add":
			r.Add(x, y)
		case "sub":
			r.Sub(x, y)
		case "mul":
			r.Mul(x, y)
		case "div":
			if y.Sign() == 0 {
				ok = false
			} else {
				r.Quo(x, y)
			}
		case "rem":
			if y.Sign() == 0 {
				ok = false
			} else {
				r.Rem(x, y)
			}
		case "and":
			r.And(a.ival, b.ival)
		case "or":
			r.Or(a.ival, b.ival)
		case "xor":
			r.Xor(a.ival, b.ival)
		case "shl":
			if b.ival.BitLen() > 16 {
				r.SetInt64(0)
			} else {
				r.Lsh(a.ival, uint(b.ival.Uint64()))
			}
		case "shr":
			if b.ival.BitLen() > 16 {
				if signed && x.Sign() < 0 {
					r.SetInt64(-1)
				} else {
					r.SetInt64(0)
				}
			} else {
				r.Rsh(x, uint(b.ival.Uint64()))
			}
		default:
			ok = false
		}
		if ok {
			return mkBVBig(r, w)
		}
	}
	// identities
	switch op {
	case "add":
		if a.isConst() && a.ival.Sign() == 0 {
			return b
		}
		if b.isConst() && b.ival.Sign() == 0 {
			return a
		}
	case "sub":
		if b.isConst() && b.ival.Sign() == 0 {
			return a
		}
	case "mul":
		if a.isConst() && a.ival.Cmp(big.NewInt(1)) == 0 {
			return b
		}
		if b.isConst() && b.ival.Cmp(big.NewInt(1)) == 0 {
			return a
		}
	}
	smtop := map[string]string{"add": "bvadd", "sub": "bvsub", "mul": "bvmul", "and": "bvand", "or": "bvor", "xor": "bvxor", "shl": "bvshl"}[op]
	switch op {
	case "div":
		smtop = "bvudiv"
		if signed {
			smtop = "bvsdiv"
		}
	case "rem":
		smtop = "bvurem"
		if signed {
			smtop = "bvsrem"
		}
	case "shr":
		smtop = "bvlshr"
		if signed {
			smtop = "bvashr"
		}
	}
	if smtop == "" {
		panic("mkArith: op " + op)
	}
	return mkApp(smtop, a.sort, a, b)
}

func mkIntArith(op string, a, b *Term) *Term {
	if a.isConst() && b.isConst() {
		r := new(big.Int)
		switch op {
		case "add":
			return mkIntBig(r.Add(a.ival, b.ival))
		case "sub":
			return mkIntBig(r.Sub(a.ival, b.ival))
		case "mul":
			return mkIntBig(r.Mul(a.ival, b.ival))
		case "div":
			if b.ival.Sign() != 0 {
				return mkIntBig(r.Quo(a.ival, b.ival))
			}
		case "rem":
			if b.ival.Sign() != 0 {
				return mkIntBig(r.Rem(a.ival, b.ival))
			}
		}
	}
	switch op {
	case "add":
		if a.isConst() && a.ival.Sign() == 0 {
			return b
		}
		if b.isConst() && b.ival.Sign() == 0 {
			return a
		}
		return mkApp("+", sortInt, a, b)
	case "sub":
		if b.isConst() && b.ival.Sign() == 0 {
			return a
		}
		return mkApp("-", sortInt, a, b)
	case "mul":
		if a.isConst() && a.ival.Cmp(big.NewInt(1)) == 0 {
			return b
		}
		if b.isConst() && b.ival.Cmp(big.NewInt(1)) == 0 {
			return a
		}
		return mkApp("*", sortInt, a, b)
	case "div":
		// Go truncated division: sign(a)*sign(b) * (|a| div |b|)
		q := mkApp("div", sortInt, mkApp("abs", sortInt, a), mkApp("abs", sortInt, b))
		neg := mkApp("xor", sortBool, mkApp("<", sortBool, a, mkInt(0)), mkApp("<", sortBool, b, mkInt(0)))
		return mkApp("ite", sortInt, neg, mkApp("-", sortInt, q), q)
	case "rem":
		// a - b*(a/b); sign follows dividend
		r := mkApp("mod", sortInt, mkApp("abs", sortInt, a), mkApp("abs", sortInt, b))
		return mkApp("ite", sortInt, mkApp("<", sortBool, a, mkInt(0)), mkApp("-", sortInt, r), r)
	}
	panic("mkIntArith: op " + op)
}

func mkCmp(op string, a, b *Term, signed bool) *Term {
	if a.sort != b.sort {
		panic(fmt.Sprintf("mkCmp %s sort mismatch %v %v", op, a.sort, b.sort))
	}
	if a.isConst() && b.isConst() && a.sort.k != sFP {
		x, y := a.ival, b.ival
		if a.sort.k == sBV && signed {
			x, y = toSigned(x, a.sort.w), toSigned(y, a.sort.w)
		}
		c := x.Cmp(y)
		switch op {
		case "lt":
			return mkBool(c < 0)
		case "le":
			return mkBool(c <= 0)
		case "gt":
			return mkBool(c > 0)
		case "ge":
			return mkBool(c >= 0)
		}
	}
	var smtop string
	switch a.sort.k {
	case sInt:
		smtop = map[string]string{"lt": "<", "le": "<=", "gt": ">", "ge": ">="}[op]
	case sBV:
		p := "bvu"
		if signed {
			p = "bvs"
		}
		smtop = p + op
	case sFP:
		if a.isConst() && b.isConst() {
			switch op {
			case "lt":
				return mkBool(a.fval < b.fval)
			case "le":
				return mkBool(a.fval <= b.fval)
			case "gt":
				return mkBool(a.fval > b.fval)
			case "ge":
				return mkBool(a.fval >= b.fval)
			}
		}
		smtop = map[string]string{"lt": "fp.lt", "le": "fp.leq", "gt": "fp.gt", "ge": "fp.geq"}[op]
	}
	return mkApp(smtop, sortBool, a, b)
}

func mkNeg(a *Term) *Term {
	switch a.sort.k {
	case sInt:
		return mkIntArith("sub", mkInt(0), a)
	case sBV:
		return mkArith("sub", mkBV(0, a.sort.w), a, false)
	case sFP:
		if a.isConst() {
			return mkFP(-a.fval)
		}
		return mkApp("fp.neg", sortFP, a)
	}
	panic("mkNeg")
}

func mkBVNot(a *Term) *Term {
	if a.isConst() {
		m := new(big.Int).Sub(new(big.Int).Lsh(big.NewInt(1), uint(a.sort.w)), big.NewInt(1))
		return mkBVBig(new(big.Int).Xor(a.ival, m), a.sort.w)
	}
	return mkApp("bvnot", a.sort, a)
}

// mkResize converts a BV term to width w (sign- or zero-extending, or truncating).
func mkResize(a *Term, w int, signed bool) *Term {
	if a.sort.k == sInt {
		return a
	}
	if a.sort.w == w {
		return a
	}
	if a.isConst() {
		v := a.ival
		if signed {
			v = toSigned(v, a.sort.w)
		}
		return mkBVBig(v, w)
	}
	if w < a.sort.w {
		return mkApp(fmt.Sprintf("(_ extract %d 0)", w-1), bvSort(w), a)
	}
	if signed {
		return mkApp(fmt.Sprintf("(_ sign_extend %d)", w-a.sort.w), bvSort(w), a)
	}
	return mkApp(fmt.Sprintf("(_ zero_extend %d)", w-a.sort.w), bvSort(w), a)
}

// ---------------------------------------------------------------- floats

func isToSBVOfIntegral(a *Term) *Term {
	if a.sort.k == sBV && strings.HasPrefix(a.op, "(_ fp.to_sbv ") && strings.HasPrefix(a.args[0].op, "fp.roundToIntegral") {
		return a.args[0]
	}
	return nil
}

// eqIntegralFP rewrites  to_sbv(t) == b  (t an integral-valued float) into
// fp.eq(t, to_fp(b)), which solvers decide far faster. The rewrite is exact
// when |t| < 2^63 and |b| <= 2^53; both are recorded as side obligations
// that are discharged at the end of the path.
func eqIntegralFP(a, b *Term) *Term {
	t := isToSBVOfIntegral(a)
	if t == nil || EX == nil {
		return nil
	}
	w := a.sort.w
	lim := mkFP(9.223372036854775808e18)
	if w < 64 {
		lim = mkFP(float64(uint64(1) << uint(w-1)))
	}
	EX.sideObligation(mkCmp("lt", mkFPAbs(t), lim, true), "float->int conversion in range")
	p53 := new(big.Int).Lsh(big.NewInt(1), 53)
	if w > 54 {
		inRange := mkAnd(mkCmp("le", b, mkBVBig(p53, w), true), mkCmp("ge", b, mkBVBig(new(big.Int).Neg(p53), w), true))
		EX.sideObligation(inRange, "integer exactly representable as float64")
	}
	return mkApp("fp.eq", sortBool, t, mkSBVToFP(b, true))
}

func mkFPArith(op string, a, b *Term) *Term {
	if a.isConst() && b.isConst() {
		switch op {
		case "add":
			return mkFP(a.fval + b.fval)
		case "sub":
			return mkFP(a.fval - b.fval)
		case "mul":
			return mkFP(a.fval * b.fval)
		case "div":
			return mkFP(a.fval / b.fval)
		}
	}
	return mkApp("fp."+op+" RNE", sortFP, a, b)
}

func mkFPRound(mode string, a *Term) *Term {
	if a.isConst() {
		switch mode {
		case "RTZ":
			return mkFP(math.Trunc(a.fval))
		case "RNA":
			return mkFP(math.Round(a.fval))
		case "RTN":
			return mkFP(math.Floor(a.fval))
		case "RTP":
			return mkFP(math.Ceil(a.fval))
		}
	}
	return mkApp("fp.roundToIntegral "+mode, sortFP, a)
}

func mkFPAbs(a *Term) *Term {
	if a.isConst() {
		return mkFP(math.Abs(a.fval))
	}
	return mkApp("fp.abs", sortFP, a)
}

// float -> signed BV of width w, truncating toward zero
func mkFPToSBV(a *Term, w int) *Term {
	if a.isConst() {
		return mkBVBig(big.NewInt(int64(a.fval)), w)
	}
	return mkApp(fmt.Sprintf("(_ fp.to_sbv %d) RTZ", w), bvSort(w), a)
}

func mkFPToUBV(a *Term, w int) *Term {
	if a.isConst() {
		return mkBVBig(new(big.Int).SetUint64(uint64(a.fval)), w)
	}
	return mkApp(fmt.Sprintf("(_ fp.to_ubv %d) RTZ", w), bvSort(w), a)
}

func mkSBVToFP(a *Term, signed bool) *Term {
	if t := isToSBVOfIntegral(a); t != nil && signed && EX != nil {
		// float64(int64(t)) == t for integral t in range
		lim := mkFP(9.223372036854775808e18)
		if a.sort.w < 64 {
			lim = mkFP(float64(uint64(1) << uint(a.sort.w-1)))
		}
		EX.sideObligation(mkCmp("lt", mkFPAbs(t), lim, true), "float->int conversion in range")
		return t
	}
	if a.isConst() {
		if signed {
			f, _ := new(big.Float).SetInt(toSigned(a.ival, a.sort.w)).Float64()
			return mkFP(f)
		}
		f, _ := new(big.Float).SetInt(a.ival).Float64()
		return mkFP(f)
	}
	if signed {
		return mkApp("(_ to_fp 11 53) RNE", sortFP, a)
	}
	return mkApp("(_ to_fp_unsigned 11 53) RNE", sortFP, a)
}

func mkFPIsNaN(a *Term) *Term {
	if a.isConst() {
		return mkBool(math.IsNaN(a.fval))
	}
	return mkApp("fp.isNaN", sortBool, a)
}

func mkFPIsInf(a *Term) *Term {
	if a.isConst() {
		return mkBool(math.IsInf(a.fval, 0))
	}
	return mkApp("fp.isInfinite", sortBool, a)
}

// varList returns the variables of t (memoised).
func (t *Term) varList() []*Term {
	if t.varsOK {
		return t.vars
	}
	var out []*Term
	collectVars(t, map[int]bool{}, &out)
	t.vars, t.varsOK = out, true
	return out
}

// collectVars returns the variables occurring in t (deduplicated by the caller's set).
func collectVars(t *Term, seen map[int]bool, out *[]*Term) {
	if seen[t.id] {
		return
	}
	seen[t.id] = true
	if t.op == "var" {
		*out = append(*out, t)
	}
	for _, a := range t.args {
		collectVars(a, seen, out)
	}
}
