// Copyright 2013 The Go Authors. All rights reserved.
// Use of this source code is governed by a BSD-style
// license that can be found in the LICENSE file.

package interp

// Emulated "reflect" package.
//
// We completely replace the built-in "reflect" package.
// The only thing clients can depend upon are that reflect.Type is an
// interface and reflect.Value is an (opaque) struct.

import (
	"fmt"
	"go/token"
	"go/types"
	"reflect"

	"golang.org/x/tools/go/ssa"
)

type opaqueType struct {
	types.Type
	name string
}

func (t *opaqueType) String() string { return t.name }

// A bogus "reflect" type-checker package.  Shared across interpreters.
var reflectTypesPackage = types.NewPackage("reflect", "reflect")

// rtype is the concrete type the interpreter uses to implement the
// reflect.Type interface.
//
// type rtype <opaque>
var rtypeType = makeNamedType("rtype", &opaqueType{nil, "rtype"})

// error is an (interpreted) named type whose underlying type is string.
// The interpreter uses it for all implementations of the built-in error
// interface that it creates.
// We put it in the "reflect" package for expedience.
//
// type error string
var errorType = makeNamedType("error", &opaqueType{nil, "error"})

func makeNamedType(name string, underlying types.Type) *types.Named {
	obj := types.NewTypeName(token.NoPos, reflectTypesPackage, name, nil)
	return types.NewNamed(obj, underlying, nil)
}

// reflect.Value = structure{rtype, val, addr}; addr != nil makes the value
// addressable (val is then ignored and the cell is read through addr).
func makeReflectValue(t types.Type, v value) value {
	return structure{rtype{t}, v, (*value)(nil)}
}

// Given a reflect.Value, returns its rtype.
func rV2T(v value) rtype {
	if rt, ok := v.(structure)[0].(rtype); ok {
		return rt
	}
	return rtype{nil}
}

// Given a reflect.Value, returns the underlying interpreter value.
func rV2V(v value) value {
	return rvCur(v)
}

// makeReflectType boxes up an rtype in a reflect.Type interface.
func makeReflectType(rt rtype) value {
	return iface{rtypeType, rt}
}

func ext۰reflect۰rtype۰Bits(fr *frame, args []value) value {
	// Signature: func (t reflect.rtype) int
	rt := args[0].(rtype).t
	basic, ok := rt.Underlying().(*types.Basic)
	if !ok {
		panic(fmt.Sprintf("reflect.Type.Bits(%T): non-basic type", rt))
	}
	return int(fr.i.sizes.Sizeof(basic)) * 8
}

func ext۰reflect۰rtype۰Elem(fr *frame, args []value) value {
	// Signature: func (t reflect.rtype) reflect.Type
	return makeReflectType(rtype{args[0].(rtype).t.Underlying().(interface {
		Elem() types.Type
	}).Elem()})
}

func ext۰reflect۰rtype۰Field(fr *frame, args []value) value {
	// Signature: func (t reflect.rtype, i int) reflect.StructField
	st := args[0].(rtype).t.Underlying().(*types.Struct)
	i := args[1].(int)
	f := st.Field(i)
	return structure{
		f.Name(),
		f.Pkg().Path(),
		makeReflectType(rtype{f.Type()}),
		st.Tag(i),
		0,         // TODO(adonovan): offset
		[]value{}, // TODO(adonovan): indices
		f.Anonymous(),
	}
}

func ext۰reflect۰rtype۰In(fr *frame, args []value) value {
	// Signature: func (t reflect.rtype, i int) int
	i := args[1].(int)
	return makeReflectType(rtype{args[0].(rtype).t.(*types.Signature).Params().At(i).Type()})
}

func ext۰reflect۰rtype۰Kind(fr *frame, args []value) value {
	// Signature: func (t reflect.rtype) uint
	return uint(reflectKind(args[0].(rtype).t))
}

func ext۰reflect۰rtype۰NumField(fr *frame, args []value) value {
	// Signature: func (t reflect.rtype) int
	return args[0].(rtype).t.Underlying().(*types.Struct).NumFields()
}

func ext۰reflect۰rtype۰NumIn(fr *frame, args []value) value {
	// Signature: func (t reflect.rtype) int
	return args[0].(rtype).t.Underlying().(*types.Signature).Params().Len()
}

func ext۰reflect۰rtype۰NumMethod(fr *frame, args []value) value {
	// Signature: func (t reflect.rtype) int
	return fr.i.prog.MethodSets.MethodSet(args[0].(rtype).t).Len()
}

func ext۰reflect۰rtype۰NumOut(fr *frame, args []value) value {
	// Signature: func (t reflect.rtype) int
	return args[0].(rtype).t.Underlying().(*types.Signature).Results().Len()
}

func ext۰reflect۰rtype۰Out(fr *frame, args []value) value {
	// Signature: func (t reflect.rtype, i int) int
	i := args[1].(int)
	return makeReflectType(rtype{args[0].(rtype).t.Underlying().(*types.Signature).Results().At(i).Type()})
}

func ext۰reflect۰rtype۰Size(fr *frame, args []value) value {
	// Signature: func (t reflect.rtype) uintptr
	return uintptr(fr.i.sizes.Sizeof(args[0].(rtype).t))
}

func ext۰reflect۰rtype۰String(fr *frame, args []value) value {
	// Signature: func (t reflect.rtype) string
	return args[0].(rtype).t.String()
}

func reflectKind(t types.Type) reflect.Kind {
	switch t := t.(type) {
	case *types.Named, *types.Alias:
		return reflectKind(t.Underlying())
	case *types.Basic:
		switch t.Kind() {
		case types.Bool:
			return reflect.Bool
		case types.Int:
			return reflect.Int
		case types.Int8:
			return reflect.Int8
		case types.Int16:
			return reflect.Int16
		case types.Int32:
			return reflect.Int32
		case types.Int64:
			return reflect.Int64
		case types.Uint:
			return reflect.Uint
		case types.Uint8:
			return reflect.Uint8
		case types.Uint16:
			return reflect.Uint16
		case types.Uint32:
			return reflect.Uint32
		case types.Uint64:
			return reflect.Uint64
		case types.Uintptr:
			return reflect.Uintptr
		case types.Float32:
			return reflect.Float32
		case types.Float64:
			return reflect.Float64
		case types.Complex64:
			return reflect.Complex64
		case types.Complex128:
			return reflect.Complex128
		case types.String:
			return reflect.String
		case types.UnsafePointer:
			return reflect.UnsafePointer
		}
	case *types.Array:
		return reflect.Array
	case *types.Chan:
		return reflect.Chan
	case *types.Signature:
		return reflect.Func
	case *types.Interface:
		return reflect.Interface
	case *types.Map:
		return reflect.Map
	case *types.Pointer:
		return reflect.Ptr
	case *types.Slice:
		return reflect.Slice
	case *types.Struct:
		return reflect.Struct
	}
	panic(fmt.Sprint("unexpected type: ", t))
}

func ext۰reflect۰error۰Error(fr *frame, args []value) value {
	return args[0]
}

// newMethod creates a new method of the specified name, package and receiver type.
func newMethod(pkg *ssa.Package, recvType types.Type, name string) *ssa.Function {
	// TODO(adonovan): fix: hack: currently the only part of Signature
	// that is needed is the "pointerness" of Recv.Type, and for
	// now, we'll set it to always be false since we're only
	// concerned with rtype.  Encapsulate this better.
	sig := types.NewSignature(types.NewVar(token.NoPos, nil, "recv", recvType), nil, nil, false)
	fn := pkg.Prog.NewFunction(name, sig, "fake reflect method")
	fn.Pkg = pkg
	return fn
}

func initReflect(i *interpreter) {
	i.reflectPackage = &ssa.Package{
		Prog:    i.prog,
		Pkg:     reflectTypesPackage,
		Members: make(map[string]ssa.Member),
	}

	// Clobber the type-checker's notion of reflect.Value's
	// underlying type so that it more closely matches the fake one
	// (at least in the number of fields---we lie about the type of
	// the rtype field).
	//
	// We must ensure that calls to (ssa.Value).Type() return the
	// fake type so that correct "shape" is used when allocating
	// variables, making zero values, loading, and storing.
	//
	// TODO(adonovan): obviously this is a hack.  We need a cleaner
	// way to fake the reflect package (almost---DeepEqual is fine).
	// One approach would be not to even load its source code, but
	// provide fake source files.  This would guarantee that no bad
	// information leaks into other packages.
	if r := i.prog.ImportedPackage("reflect"); r != nil {
		rV := r.Pkg.Scope().Lookup("Value").Type().(*types.Named)

		// delete bodies of the old methods
		mset := i.prog.MethodSets.MethodSet(rV)
		for j := 0; j < mset.Len(); j++ {
			i.prog.MethodValue(mset.At(j)).Blocks = nil
		}

		tEface := types.NewInterface(nil, nil).Complete()
		rV.SetUnderlying(types.NewStruct([]*types.Var{
			types.NewField(token.NoPos, r.Pkg, "t", tEface, false), // a lie
			types.NewField(token.NoPos, r.Pkg, "v", tEface, false),
			types.NewField(token.NoPos, r.Pkg, "a", tEface, false),
		}, nil))
	}

	i.rtypeMethods = methodSet{
		"Bits":      newMethod(i.reflectPackage, rtypeType, "Bits"),
		"Elem":      newMethod(i.reflectPackage, rtypeType, "Elem"),
		"Field":     newMethod(i.reflectPackage, rtypeType, "Field"),
		"In":        newMethod(i.reflectPackage, rtypeType, "In"),
		"Kind":      newMethod(i.reflectPackage, rtypeType, "Kind"),
		"NumField":  newMethod(i.reflectPackage, rtypeType, "NumField"),
		"NumIn":     newMethod(i.reflectPackage, rtypeType, "NumIn"),
		"NumMethod": newMethod(i.reflectPackage, rtypeType, "NumMethod"),
		"NumOut":    newMethod(i.reflectPackage, rtypeType, "NumOut"),
		"Out":       newMethod(i.reflectPackage, rtypeType, "Out"),
		"Size":      newMethod(i.reflectPackage, rtypeType, "Size"),
		"String":    newMethod(i.reflectPackage, rtypeType, "String"),
	}
	i.errorMethods = methodSet{
		"Error": newMethod(i.reflectPackage, errorType, "Error"),
	}
}
