package interp

// Environment stubs: fmt, sort, linq, strings, strconv, atomic, time, hashing, math.
// Every stub is part of the claim and is counted in the evidence (EX.Stubs).

import (
	"fmt"
	"go/token"
	"go/types"
	"math"
	"sort"
	"strconv"
	"strings"

	"golang.org/x/tools/go/ssa"
)

var Whitelist = map[string]bool{}
var FuncWhitelist = func(fn *ssa.Function) bool { return false }
var NoInit = map[string]bool{"errors": true}

func pkgPathOf(fn *ssa.Function) string {
	if fn.Pkg != nil {
		return fn.Pkg.Pkg.Path()
	}
	if o := fn.Origin(); o != nil && o.Pkg != nil {
		return o.Pkg.Pkg.Path()
	}
	if fn.Object() != nil && fn.Object().Pkg() != nil {
		return fn.Object().Pkg().Path()
	}
	return ""
}

func zeroResult(sig *types.Signature) value {
	switch sig.Results().Len() {
	case 0:
		return nil
	case 1:
		return zero(sig.Results().At(0).Type())
	}
	var t tuple
	for i := 0; i < sig.Results().Len(); i++ {
		t = append(t, zero(sig.Results().At(i).Type()))
	}
	return t
}

type linqQ struct{ items []value }

// fmtArg converts an interpreter value to something the host fmt can print.
func (i *interpreter) fmtArg(fr *frame, a value) interface{} {
	x, ok := a.(iface)
	if !ok {
		return fmt.Sprint(a)
	}
	if x.t == nil {
		return nil
	}
	for _, mname := range []string{"Error", "String"} {
		sel := i.prog.MethodSets.MethodSet(x.t).Lookup(nil, mname)
		if sel == nil {
			continue
		}
		if m := i.prog.MethodValue(sel); m != nil && m.Signature.Params().Len() == 0 && (m.Blocks != nil || externals[m.String()] != nil) {
			var res value
			func() {
				defer func() {
					if p := recover(); p != nil {
						switch p.(type) {
						case pathPruned, pathAbort, unsupported, killT, schedAbort:
							panic(p)
						}
					}
				}()
				res = call(i, fr, 0, m, []value{x.v})
			}()
			if s, ok := res.(string); ok {
				return s
			}
			if res != nil {
				return toString(res)
			}
		}
	}
	switch v := x.v.(type) {
	case *value:
		if v == nil {
			return "<nil>"
		}
		return "0xc000000000"
	case []value:
		if b, ok := x.t.Underlying().(*types.Slice); ok {
			if bb, ok := b.Elem().Underlying().(*types.Basic); ok && bb.Kind() == types.Uint8 {
				allBytes := true
				for _, e := range v {
					if _, ok := e.(byte); !ok {
						allBytes = false
					}
				}
				if allBytes {
					return valueToString(v)
				}
			}
		}
		return toString(v)
	case structure, array, *omap, optPtr, *closure, *ssa.Function:
		return toString(v)
	default:
		return x.v
	}
}

func hostSprintf(fr *frame, format string, rest []value) string {
	var as []interface{}
	for _, a := range rest {
		as = append(as, fr.i.fmtArg(fr, a))
	}
	return fmt.Sprintf(format, as...)
}

func newError(fr *frame, msg value) value {
	errNew := fr.i.prog.ImportedPackage("errors").Func("New")
	return call(fr.i, fr, 0, errNew, []value{msg})
}

func init() {
	ext := externals
	// ---- linq
	ext["github.com/ahmetb/go-linq/v3.From"] = func(fr *frame, args []value) value {
		src := args[0].(iface).v
		items, _ := src.([]value)
		return structure{linqQ{items}}
	}
	ext["(github.com/ahmetb/go-linq/v3.Query).SelectT"] = func(fr *frame, args []value) value {
		q := args[0].(structure)[0].(linqQ)
		fn := args[1].(iface).v
		var out []value
		for _, it := range q.items {
			out = append(out, call(fr.i, fr, 0, fn, []value{it}))
		}
		return structure{linqQ{out}}
	}
	ext["(github.com/ahmetb/go-linq/v3.Query).WhereT"] = func(fr *frame, args []value) value {
		q := args[0].(structure)[0].(linqQ)
		fn := args[1].(iface).v
		var out []value
		for _, it := range q.items {
			if concretizeBool(call(fr.i, fr, 0, fn, []value{it})) {
				out = append(out, it)
			}
		}
		return structure{linqQ{out}}
	}
	ext["(github.com/ahmetb/go-linq/v3.Query).ToSlice"] = func(fr *frame, args []value) value {
		q := args[0].(structure)[0].(linqQ)
		p := deref(fr, args[1].(iface).v, "linq ToSlice")
		// linq's ToSlice reuses the destination's capacity; a fresh slice is equivalent for callers that pass a nil slice
		*p = append([]value{}, q.items...)
		return nil
	}
	// ---- atomics
	ext["sync/atomic.AddUint64"] = func(fr *frame, args []value) value {
		p := deref(fr, args[0], "atomic.AddUint64")
		RD.syncOn(p)
		*p = binop(token.ADD, types.Typ[types.Uint64], *p, args[1])
		return *p
	}
	ext["sync/atomic.AddUint32"] = func(fr *frame, args []value) value {
		p := deref(fr, args[0], "atomic.AddUint32")
		RD.syncOn(p)
		*p = binop(token.ADD, types.Typ[types.Uint32], *p, args[1])
		return *p
	}
	ext["sync/atomic.LoadUint64"] = func(fr *frame, args []value) value {
		RD.syncOn(deref(fr, args[0], "atomic.LoadUint64"))
		return *deref(fr, args[0], "atomic.LoadUint64")
	}
	ext["sync/atomic.StoreUint64"] = func(fr *frame, args []value) value {
		RD.syncOn(deref(fr, args[0], "atomic.StoreUint64"))
		*deref(fr, args[0], "atomic.StoreUint64") = args[1]
		return nil
	}
	// ---- fmt
	ext["fmt.Sprintf"] = func(fr *frame, args []value) value {
		format := concretizeStr(args[0])
		rest, _ := args[1].([]value)
		if r, ok := symSprintf(fr, format, rest); ok {
			return r
		}
		return hostSprintf(fr, format, rest)
	}
	ext["fmt.Errorf"] = func(fr *frame, args []value) value {
		format := concretizeStr(args[0])
		rest, _ := args[1].([]value)
		if r, ok := symSprintf(fr, format, rest); ok {
			return newError(fr, r)
		}
		return newError(fr, hostSprintf(fr, strings.ReplaceAll(format, "%w", "%v"), rest))
	}
	ext["fmt.Sprint"] = func(fr *frame, args []value) value {
		rest, _ := args[0].([]value)
		var parts []string
		for _, a := range rest {
			if x, ok := a.(iface); ok && isSymScalar(x.v) {
				return freshSymStr("sprint")
			}
			parts = append(parts, fmt.Sprint(fr.i.fmtArg(fr, a)))
		}
		return strings.Join(parts, "")
	}
	ext["fmt.Println"] = func(fr *frame, args []value) value { return tuple{0, iface{}} }
	ext["fmt.Printf"] = func(fr *frame, args []value) value { return tuple{0, iface{}} }
	ext["fmt.Print"] = func(fr *frame, args []value) value { return tuple{0, iface{}} }
	// ---- strings / strconv
	ext["strings.Split"] = func(fr *frame, args []value) value {
		var out []value
		for _, s := range strings.Split(concretizeStr(args[0]), concretizeStr(args[1])) {
			out = append(out, s)
		}
		return out
	}
	ext["strings.IndexByte"] = func(fr *frame, args []value) value {
		return strings.IndexByte(concretizeStr(args[0]), args[1].(byte))
	}
	ext["strings.Index"] = func(fr *frame, args []value) value {
		return strings.Index(concretizeStr(args[0]), concretizeStr(args[1]))
	}
	ext["strings.Contains"] = func(fr *frame, args []value) value {
		return strings.Contains(concretizeStr(args[0]), concretizeStr(args[1]))
	}
	ext["strings.HasPrefix"] = func(fr *frame, args []value) value {
		return strings.HasPrefix(concretizeStr(args[0]), concretizeStr(args[1]))
	}
	ext["strings.HasSuffix"] = func(fr *frame, args []value) value {
		return strings.HasSuffix(concretizeStr(args[0]), concretizeStr(args[1]))
	}
	ext["strings.TrimSpace"] = func(fr *frame, args []value) value { return strings.TrimSpace(concretizeStr(args[0])) }
	ext["strings.ToLower"] = func(fr *frame, args []value) value { return strings.ToLower(concretizeStr(args[0])) }
	ext["strings.ToUpper"] = func(fr *frame, args []value) value { return strings.ToUpper(concretizeStr(args[0])) }
	ext["strings.Join"] = func(fr *frame, args []value) value {
		var parts []string
		for _, p := range args[0].([]value) {
			parts = append(parts, concretizeStr(p))
		}
		return strings.Join(parts, concretizeStr(args[1]))
	}
	ext["strconv.Itoa"] = func(fr *frame, args []value) value {
		if s, ok := args[0].(symInt); ok {
			return ropeOf(s).simplify()
		}
		return strconv.Itoa(args[0].(int))
	}
	ext["strconv.FormatFloat"] = func(fr *frame, args []value) value {
		if _, ok := args[0].(symF64); ok {
			return stubFormatFloat(fr, args)
		}
		return strconv.FormatFloat(args[0].(float64), args[1].(byte), args[2].(int), args[3].(int))
	}
	ext["strconv.Atoi"] = func(fr *frame, args []value) value {
		n, err := strconv.Atoi(concretizeStr(args[0]))
		if err != nil {
			return tuple{0, newError(fr, err.Error())}
		}
		return tuple{n, iface{}}
	}
	// ---- sort
	ext["sort.Slice"] = func(fr *frame, args []value) value {
		s, _ := args[0].(iface).v.([]value)
		less := args[1]
		if len(s) >= 12 {
			// concrete less only: use host sort on a stable basis
			EX.Stubs["sort.Slice (n>=12: insertion sort; order of equal elements may differ from pdqsort)"]++
		}
		for i := 1; i < len(s); i++ {
			for j := i; j > 0 && concretizeBool(call(fr.i, fr, 0, less, []value{j, j - 1})); j-- {
				s[j], s[j-1] = s[j-1], s[j]
			}
		}
		return nil
	}
	ext["sort.Strings"] = func(fr *frame, args []value) value {
		s := args[0].([]value)
		ss := make([]string, len(s))
		for i := range s {
			ss[i] = concretizeStr(s[i])
		}
		sort.Strings(ss)
		for i := range s {
			s[i] = ss[i]
		}
		return nil
	}
	// ---- hashing (injective)
	ext["crypto/sha256.Sum256"] = func(fr *frame, args []value) value {
		EX.Stubs["crypto/sha256.Sum256 (injective: hashes equal iff inputs equal)"]++
		var r rope
		switch x := args[0].(type) {
		case opaqueBytesV:
			r = x.r
		case *jsonTok:
			r = ropeOf(x)
		case []value:
			r = ropeOf(valueToString(x))
		default:
			panic(unsupported{fmt.Sprintf("sha256.Sum256 of %T", x)})
		}
		a := make(array, 32)
		for i := range a {
			a[i] = byte(0)
		}
		a[0] = hashPart{r}
		return a
	}
	ext["encoding/hex.EncodeToString"] = func(fr *frame, args []value) value {
		s := args[0].([]value)
		if len(s) > 0 {
			if h, ok := s[0].(hashPart); ok {
				return rope{[]value{h}}
			}
		}
		b := make([]byte, len(s))
		for i := range s {
			b[i] = s[i].(byte)
		}
		return fmt.Sprintf("%x", b)
	}
	// ---- math
	ext["math.Pow"] = func(fr *frame, args []value) value {
		x, xok := args[0].(float64)
		y, yok := args[1].(float64)
		if xok && yok {
			return math.Pow(x, y)
		}
		if xok && x == 10 {
			// 10^y for symbolic y: y must be a small integer-valued float; fork over the table
			ys := args[1].(symF64)
			for k := -8; k <= 8; k++ {
				if EX.decide(mkEq(ys.t, mkFP(float64(k)))) {
					return math.Pow(10, float64(k))
				}
			}
			panic(unsupported{"math.Pow(10, y) with symbolic y outside -8..8"})
		}
		panic(unsupported{"math.Pow with symbolic arguments"})
	}
	ext["math.Trunc"] = func(fr *frame, args []value) value {
		if s, ok := args[0].(symF64); ok {
			return mkSymF64(mkFPRound("RTZ", s.t))
		}
		return math.Trunc(args[0].(float64))
	}
	ext["math.Round"] = func(fr *frame, args []value) value {
		if s, ok := args[0].(symF64); ok {
			return mkSymF64(mkFPRound("RNA", s.t))
		}
		return math.Round(args[0].(float64))
	}
	ext["math.Floor"] = func(fr *frame, args []value) value {
		if s, ok := args[0].(symF64); ok {
			return mkSymF64(mkFPRound("RTN", s.t))
		}
		return math.Floor(args[0].(float64))
	}
	ext["math.Ceil"] = func(fr *frame, args []value) value {
		if s, ok := args[0].(symF64); ok {
			return mkSymF64(mkFPRound("RTP", s.t))
		}
		return math.Ceil(args[0].(float64))
	}
	ext["math.RoundToEven"] = func(fr *frame, args []value) value {
		if s, ok := args[0].(symF64); ok {
			return mkSymF64(mkFPRound("RNE", s.t))
		}
		return math.RoundToEven(args[0].(float64))
	}
	ext["math.Abs"] = func(fr *frame, args []value) value {
		if s, ok := args[0].(symF64); ok {
			return mkSymF64(mkFPAbs(s.t))
		}
		return math.Abs(args[0].(float64))
	}
	ext["math.IsNaN"] = func(fr *frame, args []value) value {
		if s, ok := args[0].(symF64); ok {
			return mkSymBool(mkFPIsNaN(s.t))
		}
		return math.IsNaN(args[0].(float64))
	}
	ext["math.IsInf"] = func(fr *frame, args []value) value {
		if s, ok := args[0].(symF64); ok {
			if args[1].(int) != 0 {
				panic(unsupported{"math.IsInf with sign"})
			}
			return mkSymBool(mkFPIsInf(s.t))
		}
		return math.IsInf(args[0].(float64), args[1].(int))
	}
	ext["math.Log10"] = func(fr *frame, args []value) value { return math.Log10(args[0].(float64)) }
	ext["math.Mod"] = func(fr *frame, args []value) value { return math.Mod(args[0].(float64), args[1].(float64)) }
	ext["math.Modf"] = func(fr *frame, args []value) value {
		a, b := math.Modf(args[0].(float64))
		return tuple{a, b}
	}
}

// stubFormatFloat: strconv.FormatFloat(v,'f',-1,bits) of a symbolic float.
// bits=64: the harness states the number n of fractional digits of the shortest
// representation (AssumeDecimals; v is k/10^n with k%10 != 0 below 2^53).
// bits=32: the shortest text that identifies float32(v) has the least m <= n such
// that the m-digit decimal nearest to v still rounds to float32(v); which m that
// is gets decided by the solver (one fork per m), so a change of the bit size is
// not silently absorbed by the 64-bit contract.
var stubFormatFloat = func(fr *frame, args []value) value {
	s := args[0].(symF64)
	n, ok := EX.decimals[s.t.id]
	if !ok || args[1].(byte) != 'f' || args[2].(int) != -1 {
		panic(unsupported{"strconv.FormatFloat of a symbolic float without a declared decimal count"})
	}
	switch args[3].(int) {
	case 64:
	case 32:
		EX.Stubs["strconv.FormatFloat(v,'f',-1,32) of a symbolic float: least m with float32(round(v*10^m)/10^m) == float32(v)"]++
		to32 := func(t *Term) *Term {
			return mkApp("(_ to_fp 11 53) RNE", sortFP, mkApp("(_ to_fp 8 24) RNE", sortFP, t))
		}
		v32 := to32(s.t)
		m := 0
		for ; m < n; m++ {
			p := mkFP(math.Pow(10, float64(m)))
			cand := mkFPArith("div", mkFPRound("RNE", mkFPArith("mul", s.t, p)), p)
			if EX.decide(mkApp("fp.eq", sortBool, to32(cand), v32)) {
				break
			}
		}
		n = m
	default:
		panic(unsupported{"strconv.FormatFloat of a symbolic float with a bit size other than 32 or 64"})
	}
	if n == 0 {
		return "0"
	}
	return "0." + strings.Repeat("0", n)
}

func AssumeDecimalsConcrete(v float64, n int) {
	s := strconv.FormatFloat(v, 'f', -1, 64)
	dec := 0
	if i := strings.IndexByte(s, '.'); i >= 0 {
		dec = len(s) - i - 1
	}
	if (n >= 5 && dec < 5) || (n < 5 && dec != n) {
		panic(pathPruned{"AssumeDecimals"})
	}
}
