package interp

// One live SMT solver process (z3 -in / cvc5 --incremental) driven over pipes.

import (
	"bufio"
	"fmt"
	"io"
	"math"
	"math/big"
	"os/exec"
	"strings"
	"time"
)

type Solver struct {
	Kind     string
	cmd      *exec.Cmd
	in       io.WriteCloser
	out      *bufio.Reader
	declared map[int]bool
	levels   [][]int // variables declared at each push level
	Queries  int
	Sat      int
	Unsat    int
	Unknown  int
	Errors   int
	Time     time.Duration
	LogW     io.Writer // optional transcript
	timeout  int
}

func NewSolver(kind string, timeoutMs int) *Solver {
	var c *exec.Cmd
	switch kind {
	case "z3", "z3-new":
		c = exec.Command(kind, "-in", fmt.Sprintf("-t:%d", timeoutMs))
	case "cvc5":
		c = exec.Command("cvc5", "--incremental", "--produce-models", fmt.Sprintf("--tlimit-per=%d", timeoutMs), "--lang=smt2")
	default:
		panic("unknown solver " + kind)
	}
	in, _ := c.StdinPipe()
	outp, _ := c.StdoutPipe()
	c.Stderr = nil
	if err := c.Start(); err != nil {
		panic(err)
	}
	s := &Solver{Kind: kind, cmd: c, in: in, out: bufio.NewReaderSize(outp, 1<<20), declared: map[int]bool{}, timeout: timeoutMs, levels: [][]int{nil}}
	if kind != "cvc5" {
		s.send("(set-option :produce-models true)\n")
	}
	s.send("(set-logic ALL)\n")
	// string length function for symbolic string ids
	s.send("(declare-fun str_len (Int) (_ BitVec 64))\n")
	return s
}

func (s *Solver) Close() {
	if s == nil || s.cmd == nil {
		return
	}
	s.in.Close()
	done := make(chan struct{})
	go func() { s.cmd.Wait(); close(done) }()
	select {
	case <-done:
	case <-time.After(2 * time.Second):
		s.cmd.Process.Kill()
	}
	s.cmd = nil
}

func (s *Solver) send(txt string) {
	if s.LogW != nil {
		io.WriteString(s.LogW, txt)
	}
	if _, err := io.WriteString(s.in, txt); err != nil {
		panic(engineError{"solver pipe: " + err.Error()})
	}
}

func (s *Solver) declareVars(t *Term) {
	for _, v := range t.varList() {
		if s.declared[v.id] {
			continue
		}
		s.declared[v.id] = true
		n := len(s.levels) - 1
		s.levels[n] = append(s.levels[n], v.id)
		s.send(fmt.Sprintf("(declare-const %s %s)\n", v.smt, v.sort))
	}
}

func (s *Solver) Push() {
	s.levels = append(s.levels, nil)
	s.send("(push 1)\n")
}

func (s *Solver) Pop() {
	n := len(s.levels) - 1
	for _, id := range s.levels[n] {
		delete(s.declared, id)
	}
	s.levels = s.levels[:n]
	s.send("(pop 1)\n")
}

func (s *Solver) Assert(t *Term) {
	s.declareVars(t)
	s.send("(assert " + t.smt + ")\n")
}

func (s *Solver) readLine() string {
	line, err := s.out.ReadString('\n')
	if err != nil {
		panic(engineError{"solver died: " + err.Error()})
	}
	return strings.TrimSpace(line)
}

// Check returns "sat", "unsat" or "unknown" (errors and timeouts map to unknown).
func (s *Solver) Check() string {
	t0 := time.Now()
	s.send("(check-sat)\n")
	r := s.readLine()
	s.Time += time.Since(t0)
	s.Queries++
	switch r {
	case "sat":
		s.Sat++
	case "unsat":
		s.Unsat++
	default:
		if strings.HasPrefix(r, "(error") {
			s.Errors++
		}
		if r != "unknown" && !strings.HasPrefix(r, "timeout") {
			r = "unknown:" + r
		}
		s.Unknown++
		if !strings.HasPrefix(r, "unknown") {
			r = "unknown"
		}
	}
	return r
}

// CheckWith checks the current stack plus extra, leaving the stack unchanged.
func (s *Solver) CheckWith(extra *Term) string {
	s.Push()
	s.declareVars(extra)
	s.send("(assert " + extra.smt + ")\n")
	r := s.Check()
	s.Pop()
	return r
}

// ---- s-expressions

type sexp struct {
	atom string
	list []*sexp
}

func (s *Solver) readSexp() *sexp {
	// read balanced text
	var sb strings.Builder
	depth := 0
	started := false
	inBar := false
	for {
		line, err := s.out.ReadString('\n')
		if err != nil {
			panic(engineError{"solver died: " + err.Error()})
		}
		for _, c := range line {
			if c == '|' {
				inBar = !inBar
			}
			if inBar {
				continue
			}
			if c == '(' {
				depth++
				started = true
			} else if c == ')' {
				depth--
			}
		}
		sb.WriteString(line)
		if started && depth <= 0 {
			break
		}
		if !started && strings.TrimSpace(line) != "" {
			break
		}
	}
	toks := tokenize(sb.String())
	pos := 0
	return parseSexp(toks, &pos)
}

func tokenize(s string) []string {
	var out []string
	i := 0
	for i < len(s) {
		c := s[i]
		switch {
		case c == '(' || c == ')':
			out = append(out, string(c))
			i++
		case c == ' ' || c == '\n' || c == '\t' || c == '\r':
			i++
		case c == '|':
			j := strings.IndexByte(s[i+1:], '|')
			out = append(out, s[i:i+j+2])
			i += j + 2
		case c == '"':
			j := strings.IndexByte(s[i+1:], '"')
			out = append(out, s[i:i+j+2])
			i += j + 2
		default:
			j := i
			for j < len(s) && !strings.ContainsRune("() \n\t\r", rune(s[j])) {
				j++
			}
			out = append(out, s[i:j])
			i = j
		}
	}
	return out
}

func parseSexp(toks []string, pos *int) *sexp {
	if *pos >= len(toks) {
		return &sexp{}
	}
	t := toks[*pos]
	*pos++
	if t == "(" {
		n := &sexp{}
		for *pos < len(toks) && toks[*pos] != ")" {
			n.list = append(n.list, parseSexp(toks, pos))
		}
		*pos++
		return n
	}
	return &sexp{atom: t}
}

func (e *sexp) String() string {
	if e.list == nil {
		return e.atom
	}
	var parts []string
	for _, x := range e.list {
		parts = append(parts, x.String())
	}
	return "(" + strings.Join(parts, " ") + ")"
}

// ModelValue is a concrete value read back from the solver.
type ModelValue struct {
	Bool  bool
	Int   *big.Int
	Float float64
	Sort  Sort
}

func parseBits(a string) (*big.Int, int, bool) {
	if strings.HasPrefix(a, "#x") {
		v, ok := new(big.Int).SetString(a[2:], 16)
		return v, 4 * (len(a) - 2), ok
	}
	if strings.HasPrefix(a, "#b") {
		v, ok := new(big.Int).SetString(a[2:], 2)
		return v, len(a) - 2, ok
	}
	return nil, 0, false
}

func parseModelValue(e *sexp, so Sort) (ModelValue, error) {
	mv := ModelValue{Sort: so}
	switch so.k {
	case sBool:
		mv.Bool = e.atom == "true"
		return mv, nil
	case sBV:
		if v, _, ok := parseBits(e.atom); ok {
			mv.Int = v
			return mv, nil
		}
		if len(e.list) == 3 && e.list[0].atom == "_" && strings.HasPrefix(e.list[1].atom, "bv") {
			v, ok := new(big.Int).SetString(e.list[1].atom[2:], 10)
			if ok {
				mv.Int = v
				return mv, nil
			}
		}
	case sInt:
		if e.atom != "" {
			v, ok := new(big.Int).SetString(e.atom, 10)
			if ok {
				mv.Int = v
				return mv, nil
			}
		}
		if len(e.list) == 2 && e.list[0].atom == "-" {
			v, ok := new(big.Int).SetString(e.list[1].atom, 10)
			if ok {
				mv.Int = v.Neg(v)
				return mv, nil
			}
		}
	case sFP:
		if len(e.list) == 4 && e.list[0].atom == "fp" {
			sg, _, _ := parseBits(e.list[1].atom)
			ex, _, _ := parseBits(e.list[2].atom)
			ma, _, _ := parseBits(e.list[3].atom)
			if sg != nil && ex != nil && ma != nil {
				bits := sg.Uint64()<<63 | ex.Uint64()<<52 | ma.Uint64()
				mv.Float = math.Float64frombits(bits)
				return mv, nil
			}
		}
		if len(e.list) == 4 && e.list[0].atom == "_" {
			switch e.list[1].atom {
			case "+zero":
				mv.Float = 0
				return mv, nil
			case "-zero":
				mv.Float = math.Copysign(0, -1)
				return mv, nil
			case "+oo":
				mv.Float = math.Inf(1)
				return mv, nil
			case "-oo":
				mv.Float = math.Inf(-1)
				return mv, nil
			case "NaN":
				mv.Float = math.NaN()
				return mv, nil
			}
		}
	}
	return mv, fmt.Errorf("cannot parse model value %s of sort %s", e.String(), so)
}

// GetValues evaluates terms in the current model (after a sat answer).
func (s *Solver) GetValues(terms []*Term) ([]ModelValue, error) {
	out := make([]ModelValue, len(terms))
	const chunk = 200
	for lo := 0; lo < len(terms); lo += chunk {
		hi := lo + chunk
		if hi > len(terms) {
			hi = len(terms)
		}
		var sb strings.Builder
		sb.WriteString("(get-value (")
		for _, t := range terms[lo:hi] {
			s.declareVars(t)
			sb.WriteString(t.smt)
			sb.WriteString(" ")
		}
		sb.WriteString("))\n")
		s.send(sb.String())
		e := s.readSexp()
		if len(e.list) != hi-lo {
			return nil, fmt.Errorf("get-value: got %d answers for %d terms: %.200s", len(e.list), hi-lo, e.String())
		}
		for i, p := range e.list {
			if len(p.list) != 2 {
				return nil, fmt.Errorf("get-value: bad pair %s", p.String())
			}
			mv, err := parseModelValue(p.list[1], terms[lo+i].sort)
			if err != nil {
				return nil, err
			}
			out[lo+i] = mv
		}
	}
	return out, nil
}

type engineError struct{ msg string }

func (e engineError) Error() string { return "engine: " + e.msg }
