package interp

// time.Time model: the real struct layout {wall uint64, ext int64, loc *Location}
// with ext = Unix nanoseconds (possibly symbolic) and wall = 1 marking "set"
// (wall = 0 and ext = 0 is the zero Time). The clock is a nondeterministic
// stub: every time.Now() returns a fresh instant, non-decreasing across
// calls and within [2001, 2100). Calendar text is not encoded: Format of a
// symbolic instant yields an opaque token that only ParseInLocation with the
// same layout can read back (exact to the layout's precision).

import (
	"fmt"
	"go/token"
	"go/types"
	"time"
)

type timeTok struct {
	layout string
	ns     value // int64 unix nanoseconds
}

func timeType(fr *frame) types.Type { return fr.i.prog.ImportedPackage("time").Type("Time").Type() }

func mkTime(fr *frame, ns value) value {
	st := zero(timeType(fr)).(structure)
	st[0] = uint64(1)
	st[1] = ns
	return st
}

const zeroTimeNS = int64(-6795364578871345152) // time.Time{}.UnixNano() is undefined; any fixed value before 2001 will do

func timeNSOf(v value) value {
	st := v.(structure)
	if w, ok := st[0].(uint64); ok && w == 0 {
		return zeroTimeNS
	}
	return st[1]
}

var i64 = types.Typ[types.Int64]

func init() {
	ext := externals
	ext["time.Now"] = func(fr *frame, args []value) value {
		EX.Stubs["time.Now (nondeterministic clock: fresh instant per call, non-decreasing, within 2001..2100)"]++
		EX.nowCount++
		v := symIntVar(fmt.Sprintf("$now%d", EX.nowCount), types.Int64).(symInt)
		lo, hi := int64(978307200)*1e9, int64(4102444800)*1e9
		var c *Term
		if intModeOn() {
			c = mkAnd(mkCmp("ge", v.t, mkInt(lo), true), mkCmp("lt", v.t, mkInt(hi), true))
		} else {
			c = mkAnd(mkCmp("ge", v.t, mkBV(uint64(lo), 64), true), mkCmp("lt", v.t, mkBV(uint64(hi), 64), true))
		}
		if EX.lastNow != nil {
			c = mkAnd(c, mkCmp("ge", v.t, EX.lastNow, true))
		}
		EX.addPC(c)
		EX.lastNow = v.t
		return mkTime(fr, v)
	}
	id := func(fr *frame, args []value) value { return args[0] }
	ext["(time.Time).UTC"] = id
	ext["(time.Time).Local"] = id
	ext["(time.Time).In"] = id
	ext["(time.Time).Add"] = func(fr *frame, args []value) value {
		return mkTime(fr, binop(token.ADD, i64, timeNSOf(args[0]), args[1]))
	}
	ext["(time.Time).Sub"] = func(fr *frame, args []value) value {
		return binop(token.SUB, i64, timeNSOf(args[0]), timeNSOf(args[1]))
	}
	ext["time.Since"] = func(fr *frame, args []value) value {
		now := externals["time.Now"](fr, nil)
		return binop(token.SUB, i64, timeNSOf(now), timeNSOf(args[0]))
	}
	ext["time.Until"] = func(fr *frame, args []value) value {
		now := externals["time.Now"](fr, nil)
		return binop(token.SUB, i64, timeNSOf(args[0]), timeNSOf(now))
	}
	ext["(time.Time).Before"] = func(fr *frame, args []value) value {
		return binop(token.LSS, i64, timeNSOf(args[0]), timeNSOf(args[1]))
	}
	ext["(time.Time).After"] = func(fr *frame, args []value) value {
		return binop(token.GTR, i64, timeNSOf(args[0]), timeNSOf(args[1]))
	}
	ext["(time.Time).Equal"] = func(fr *frame, args []value) value {
		return binop(token.EQL, i64, timeNSOf(args[0]), timeNSOf(args[1]))
	}
	ext["(time.Time).Compare"] = func(fr *frame, args []value) value {
		panic(unsupported{"time.Time.Compare"})
	}
	ext["(time.Time).IsZero"] = func(fr *frame, args []value) value {
		st := args[0].(structure)
		w, ok := st[0].(uint64)
		return ok && w == 0
	}
	ext["(time.Time).UnixNano"] = func(fr *frame, args []value) value { return timeNSOf(args[0]) }
	ext["(time.Time).Unix"] = func(fr *frame, args []value) value {
		return binop(token.QUO, i64, timeNSOf(args[0]), int64(1e9))
	}
	ext["(time.Time).UnixMilli"] = func(fr *frame, args []value) value {
		return binop(token.QUO, i64, timeNSOf(args[0]), int64(1e6))
	}
	roundTo := func(ns value, d value, half bool) value {
		dd, ok := d.(int64)
		if !ok {
			panic(unsupported{"time rounding with a symbolic unit"})
		}
		if dd <= 0 {
			return ns
		}
		// instants of the model are positive: r = ns mod d
		r := binop(token.REM, i64, ns, dd)
		down := binop(token.SUB, i64, ns, r)
		if !half {
			return down
		}
		up := binop(token.ADD, i64, down, dd)
		// round half up, like time.Time.Round
		c := binop(token.LSS, i64, binop(token.ADD, i64, r, r), dd)
		if b, ok := c.(bool); ok {
			if b {
				return down
			}
			return up
		}
		a, k := intTerm(down)
		b, _ := intTerm(up)
		return mkSymInt(mkIte(boolTerm(c), a, b), k)
	}
	ext["(time.Time).Round"] = func(fr *frame, args []value) value {
		return mkTime(fr, roundTo(timeNSOf(args[0]), args[1], true))
	}
	ext["(time.Time).Truncate"] = func(fr *frame, args []value) value {
		return mkTime(fr, roundTo(timeNSOf(args[0]), args[1], false))
	}
	ext["(time.Time).Format"] = func(fr *frame, args []value) value {
		layout := concretizeStr(args[1])
		ns := timeNSOf(args[0])
		if c, ok := ns.(int64); ok {
			return time.Unix(0, c).UTC().Format(layout)
		}
		EX.Stubs["time.Time.Format of a symbolic instant (opaque token; calendar text not encoded)"]++
		return rope{[]value{timeTok{layout, ns}}}
	}
	ext["(time.Time).String"] = func(fr *frame, args []value) value { return "<time>" }
	parse := func(fr *frame, layout string, s value) value {
		if r, ok := s.(rope); ok {
			n := r.norm()
			if len(n.parts) == 1 {
				if _, ok := n.parts[0].(periodTok); ok {
					return tuple{zero(timeType(fr)), newError(fr, "parsing time: a period is not a time")}
				}
				if tk, ok := n.parts[0].(timeTok); ok {
					if tk.layout != layout {
						return tuple{zero(timeType(fr)), newError(fr, "parsing time: layout mismatch")}
					}
					EX.Stubs["time.ParseInLocation of a formatted symbolic instant (inverse of the Format token, exact to the second)"]++
					// layouts without fractional seconds keep whole seconds
					return tuple{mkTime(fr, roundTo(tk.ns, int64(1e9), false)), iface{}}
				}
			}
			panic(unsupported{"time.Parse of a symbolic string"})
		}
		if _, ok := s.(symStr); ok {
			// an arbitrary unknown string: parsing fails or succeeds; only failure is modelled for non-time text
			panic(unsupported{"time.Parse of a symbolic string"})
		}
		t, err := time.Parse(layout, s.(string))
		if err != nil {
			return tuple{zero(timeType(fr)), newError(fr, err.Error())}
		}
		return tuple{mkTime(fr, t.UnixNano()), iface{}}
	}
	ext["time.ParseInLocation"] = func(fr *frame, args []value) value { return parse(fr, concretizeStr(args[0]), args[1]) }
	ext["time.Parse"] = func(fr *frame, args []value) value { return parse(fr, concretizeStr(args[0]), args[1]) }
}
