package interp

// rickb777/date/period: the integer kernels (NewOf, normalise64, rippleUp,
// moveFractionToRight, toPeriod, Duration) are interpreted from source. The
// text step in between is environment:
//   - concrete values: the real library is called natively;
//   - symbolic values: Period.String() yields an opaque token carrying the six
//     fields, and Parse of such a token rebuilds them exactly (the rendering is
//     loss-free for int16 fields: weeks are written only for whole multiples
//     of 7 days, tenths are printed with %g of a float32 which is exact below
//     2^15) and then runs the real normalisation and narrowing code.

import (
	"fmt"
	"go/types"
	"math"

	"github.com/rickb777/date/period"
	"golang.org/x/tools/go/ssa"
)

const periodPkg = "github.com/rickb777/date/period"

type periodTok struct{ fields [6]value } // years..seconds, int16, fixed point 1E1

func periodConcrete(v value) (period.Period, bool) {
	st := v.(structure)
	var f [6]int
	for i := 0; i < 6; i++ {
		x, ok := st[i].(int16)
		if !ok {
			return period.Period{}, false
		}
		f[i] = int(x)
	}
	// rebuild through the text form of the fixed-point fields
	s := nativePeriodString(f)
	p, err := period.Parse(s, false)
	if err != nil {
		return period.Period{}, false
	}
	return p, true
}

// nativePeriodString renders fixed-point fields exactly as period64.String does.
func nativePeriodString(f [6]int) string {
	neg := false
	for _, x := range f {
		if x < 0 {
			neg = true
		}
	}
	if f == [6]int{} {
		return "P0D"
	}
	out := ""
	if neg {
		out = "-"
		for i := range f {
			f[i] = -f[i]
		}
	}
	out += "P"
	w := func(field int, d byte) {
		if field != 0 {
			if field%10 != 0 {
				out += fmt.Sprintf("%g", float32(field)/10)
			} else {
				out += fmt.Sprintf("%d", field/10)
			}
			out += string(d)
		}
	}
	w(f[0], 'Y')
	w(f[1], 'M')
	if f[2] != 0 {
		if f[2]%70 == 0 {
			w(f[2]/7, 'W')
		} else {
			w(f[2], 'D')
		}
	}
	if f[3] != 0 || f[4] != 0 || f[5] != 0 {
		out += "T"
	}
	w(f[3], 'H')
	w(f[4], 'M')
	w(f[5], 'S')
	return out
}

func periodToValue(fr *frame, p period.Period) value {
	t := fr.i.prog.ImportedPackage(periodPkg).Type("Period").Type()
	st := zero(t).(structure)
	r := func(f float32) int16 { return int16(math.Round(float64(f) * 10)) }
	st[0], st[1], st[2] = r(p.YearsFloat()), r(p.MonthsFloat()), r(p.DaysFloat())
	st[3], st[4], st[5] = r(p.HoursFloat()), r(p.MinutesFloat()), r(p.SecondsFloat())
	return st
}

func init() {
	ext := externals
	ext["("+periodPkg+".Period).String"] = func(fr *frame, args []value) value {
		st := args[0].(structure)
		var f [6]int
		conc := true
		for i := 0; i < 6; i++ {
			x, ok := st[i].(int16)
			if !ok {
				conc = false
				break
			}
			f[i] = int(x)
		}
		if conc {
			return nativePeriodString(f)
		}
		EX.Stubs["period.Period.String of a symbolic period (opaque token with the six fields; the ISO-8601 text is loss-free for int16 fields)"]++
		var tk periodTok
		copy(tk.fields[:], st[:6])
		return rope{[]value{tk}}
	}
	ext[periodPkg+".Parse"] = func(fr *frame, args []value) value {
		pt := fr.i.prog.ImportedPackage(periodPkg).Type("Period").Type()
		normalise := true
		if vs, ok := args[1].([]value); ok && len(vs) > 0 {
			normalise = vs[0].(bool)
		}
		if r, ok := args[0].(rope); ok {
			n := r.norm()
			if len(n.parts) == 1 {
				if tk, ok := n.parts[0].(periodTok); ok {
					EX.Stubs["period.Parse of a period token (fields rebuilt exactly, then the real normalise64 / toPeriod code runs)"]++
					pkg := fr.i.prog.ImportedPackage(periodPkg)
					// p64 := Period{fields}.toPeriod64("")  -- real code
					st := zero(pt).(structure)
					copy(st[:6], tk.fields[:])
					toP64 := fr.i.prog.LookupMethod(pt, pkg.Pkg, "toPeriod64")
					p64 := call(fr.i, fr, 0, toP64, []value{st, ""})
					p64t := types.NewPointer(pkg.Type("period64").Type())
					if normalise {
						n64 := fr.i.prog.LookupMethod(p64t, pkg.Pkg, "normalise64")
						p64 = call(fr.i, fr, 0, n64, []value{p64, true})
					}
					toP := fr.i.prog.LookupMethod(p64t, pkg.Pkg, "toPeriod")
					return call(fr.i, fr, 0, toP, []value{p64})
				}
			}
			if len(n.parts) == 1 {
				if _, ok := n.parts[0].(timeTok); ok {
					return tuple{zero(pt), newError(fr, "period: a formatted time is not a period")}
				}
			}
			panic(unsupported{"period.Parse of a symbolic string"})
		}
		if _, ok := args[0].(symStr); ok {
			// an arbitrary unknown text: treated as not a period (parse error)
			EX.Stubs["period.Parse of an arbitrary symbolic string: modelled as a parse error"]++
			return tuple{zero(pt), newError(fr, "period: cannot parse")}
		}
		s := args[0].(string)
		p, err := period.Parse(s, normalise)
		if err != nil {
			return tuple{zero(pt), newError(fr, err.Error())}
		}
		return tuple{periodToValue(fr, p), iface{}}
	}
	_ = ssa.Function{}
}
