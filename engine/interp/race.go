package interp

// Happens-before data-race detection on the explored executions (C17, data-race half).
//
// Every interpreted thread carries a vector clock; forks (go, AfterFunc, harness threads), mutex
// release/acquire (RWMutex: read releases are acquired by writers only), channel operations, sync.Once and
// atomic operations are synchronisation edges (channel / atomic / once edges are over-approximated as
// two-way: more order than Go guarantees means fewer reports, never a false one). Loads, stores, map
// operations and the element writes of in-place append/copy performed by code of the repository (not by
// the harness) are checked FastTrack-style against the last write and the reads since: two conflicting
// accesses by different threads that the vector clocks do not order are a data race of *this* execution
// in the sense of the Go memory model, whatever order the scheduler happened to run them in. The
// executions are the ones the explorer enumerates (all symbolic inputs, schedules within the bound).

import (
	"fmt"
	"go/types"
	"sort"
	"strings"

	"golang.org/x/tools/go/ssa"
)

type vclock []int32

func (v vclock) get(i int) int32 {
	if i < len(v) {
		return v[i]
	}
	return 0
}

func (v vclock) copyOf() vclock { return append(vclock(nil), v...) }

func vcJoin(a, b vclock) vclock {
	if len(b) > len(a) {
		a = append(a, make(vclock, len(b)-len(a))...)
	}
	for i, x := range b {
		if x > a[i] {
			a[i] = x
		}
	}
	return a
}

func (v vclock) set(i int, x int32) vclock {
	if i >= len(v) {
		v = append(v, make(vclock, i+1-len(v))...)
	}
	v[i] = x
	return v
}

type raceAccess struct {
	t    int
	c    int32
	site string // function
	pos  string // function:line
}

type raceShadow struct {
	w     raceAccess
	hasW  bool
	reads []raceAccess
	what  string
}

type lockVC struct{ w, r vclock }

type raceDet struct {
	on      bool
	shadow  map[any]*raceShadow
	locks   map[*value]*lockVC
	chans   map[any]vclock // channels, atomics (by address), once objects
	harness map[*ssa.Function]bool
	Checked int
}

var RD = &raceDet{}

func (r *raceDet) reset() {
	*r = raceDet{shadow: map[any]*raceShadow{}, locks: map[*value]*lockVC{}, chans: map[any]vclock{}, harness: map[*ssa.Function]bool{}}
}

func (r *raceDet) cur() *thr {
	if SC == nil {
		return nil
	}
	return SC.cur
}

// ---- synchronisation edges

func (r *raceDet) tick(t *thr) { t.vc = t.vc.set(t.id, t.vc.get(t.id)+1) }

func (r *raceDet) fork(parent, child *thr) {
	if parent == nil {
		child.vc = vclock{}.set(child.id, 1)
		return
	}
	if parent.vc == nil {
		parent.vc = vclock{}.set(parent.id, 1)
	}
	child.vc = parent.vc.copyOf().set(child.id, 1)
	r.tick(parent)
}

func (r *raceDet) lockOf(m *value) *lockVC {
	l := r.locks[m]
	if l == nil {
		l = &lockVC{}
		r.locks[m] = l
	}
	return l
}

func (r *raceDet) acquired(m *value, read bool) {
	t := r.cur()
	if !r.on || t == nil {
		return
	}
	l := r.lockOf(m)
	t.vc = vcJoin(t.vc, l.w)
	if !read {
		t.vc = vcJoin(t.vc, l.r)
	}
}

func (r *raceDet) released(m *value, read bool) {
	t := r.cur()
	if !r.on || t == nil {
		return
	}
	l := r.lockOf(m)
	if read {
		l.r = vcJoin(l.r, t.vc)
	} else {
		l.w = vcJoin(l.w, t.vc)
	}
	r.tick(t)
}

// syncOn: a two-way synchronisation on an object (channel operation, atomic operation, sync.Once).
func (r *raceDet) syncOn(obj any) {
	t := r.cur()
	if !r.on || t == nil || obj == nil {
		return
	}
	t.vc = vcJoin(t.vc, r.chans[obj])
	r.chans[obj] = vcJoin(r.chans[obj], t.vc).copyOf()
	r.tick(t)
}

// joinAll: the harness has waited for quiescence; what the other threads did happens before what the
// waiting thread does next (a harness-level join, so that its own later calls are not reported).
func (r *raceDet) joinAll() {
	t := r.cur()
	if !r.on || t == nil {
		return
	}
	for _, o := range SC.thr {
		if o != t && o.started {
			t.vc = vcJoin(t.vc, o.vc)
		}
	}
}

// ---- accesses

func (r *raceDet) isHarnessFn(fn *ssa.Function) bool {
	if h, ok := r.harness[fn]; ok {
		return h
	}
	h := false
	root := fn
	for root.Parent() != nil {
		root = root.Parent()
	}
	if root.Pkg != nil && root.Pkg.Pkg.Path() == rtPkg {
		h = true
	}
	if p := root.Prog.Fset.Position(root.Pos()); strings.Contains(p.Filename, "zz_verif_") {
		h = true
	}
	if root.Synthetic != "" && root.Pos() == 0 {
		// wrappers and bound-method closures: attribute to the caller's kind (treated as code under test)
		h = false
	}
	r.harness[fn] = h
	return h
}

func isSyncType(t types.Type) bool {
	if n, ok := t.(*types.Named); ok && n.Obj().Pkg() != nil {
		switch n.Obj().Pkg().Path() {
		case "sync", "sync/atomic", "time":
			return true
		}
	}
	return false
}

func (r *raceDet) site(fr *frame) (string, string) {
	fn := fr.fn
	name := fn.String()
	line := 0
	if fr.cur != nil {
		line = fn.Prog.Fset.Position(fr.cur.Pos()).Line
	}
	return name, fmt.Sprintf("%s:%d", name, line)
}

// access checks one memory cell (or map object) accessed by the current thread.
func (r *raceDet) access(fr *frame, key any, write bool, what ssa.Value) {
	t := r.cur()
	if t == nil || key == nil {
		return
	}
	if t.vc == nil {
		t.vc = vclock{}.set(t.id, 1)
	}
	r.Checked++
	sh := r.shadow[key]
	if sh == nil {
		sh = &raceShadow{}
		r.shadow[key] = sh
	}
	if sh.what == "" && what != nil {
		sh.what = describeAddr(what)
	}
	fnName, pos := r.site(fr)
	me := raceAccess{t.id, t.vc.get(t.id), fnName, pos}
	if sh.hasW && sh.w.t != t.id && sh.w.c > t.vc.get(sh.w.t) {
		r.report(sh, sh.w, true, me, write)
	}
	if write {
		for _, rd := range sh.reads {
			if rd.t != t.id && rd.c > t.vc.get(rd.t) {
				r.report(sh, rd, false, me, true)
			}
		}
		sh.w, sh.hasW, sh.reads = me, true, sh.reads[:0]
		return
	}
	for i := range sh.reads {
		if sh.reads[i].t == t.id {
			sh.reads[i] = me
			return
		}
	}
	sh.reads = append(sh.reads, me)
}

func (r *raceDet) report(sh *raceShadow, a raceAccess, aWrite bool, b raceAccess, bWrite bool) {
	kind := func(w bool) string {
		if w {
			return "write"
		}
		return "read"
	}
	fs := []string{a.site, b.site}
	sort.Strings(fs)
	site := fs[0] + " | " + fs[1]
	detail := fmt.Sprintf("%s: %s at %s (thread %d) and %s at %s (thread %d) are not ordered by happens-before", sh.what, kind(aWrite), a.pos, a.t, kind(bWrite), b.pos, b.t)
	EX.recordViolation("race", "no-data-race", site, detail, nil)
}

// raceMem checks a load or store of a value of type T at addr (struct and array values cell by cell).
func (r *raceDet) raceMem(fr *frame, T types.Type, addr *value, write bool, what ssa.Value) {
	if !r.on || addr == nil || SC == nil || len(SC.thr) < 2 || r.isHarnessFn(fr.fn) {
		return
	}
	r.walk(fr, T, addr, write, what)
}

func (r *raceDet) walk(fr *frame, T types.Type, addr *value, write bool, what ssa.Value) {
	if isSyncType(T) {
		return
	}
	switch U := T.Underlying().(type) {
	case *types.Struct:
		v, ok := (*addr).(structure)
		if !ok {
			return
		}
		for i := range v {
			r.walk(fr, U.Field(i).Type(), &v[i], write, what)
		}
	case *types.Array:
		v, ok := (*addr).(array)
		if !ok {
			return
		}
		for i := range v {
			r.walk(fr, U.Elem(), &v[i], write, what)
		}
	default:
		r.access(fr, addr, write, what)
	}
}

// raceObj checks an operation on a map (one location per map object).
func (r *raceDet) raceObj(fr *frame, obj any, write bool, what ssa.Value) {
	if !r.on || SC == nil || len(SC.thr) < 2 || r.isHarnessFn(fr.fn) {
		return
	}
	if m, ok := obj.(*omap); ok && m == nil {
		return
	}
	r.access(fr, obj, write, what)
}

// raceSliceWrite: element cells [from, from+n) of the backing array of s are written (in-place append, copy, clear).
func (r *raceDet) raceSlice(fr *frame, s []value, from, n int, write bool, what ssa.Value) {
	if !r.on || SC == nil || len(SC.thr) < 2 || fr == nil || r.isHarnessFn(fr.fn) {
		return
	}
	full := s[:cap(s)]
	for i := from; i < from+n && i < len(full); i++ {
		r.access(fr, &full[i], write, what)
	}
}

func describeAddr(v ssa.Value) string {
	switch x := v.(type) {
	case *ssa.FieldAddr:
		st := typeparamsDeref(x.X.Type())
		if s, ok := st.Underlying().(*types.Struct); ok {
			return types.TypeString(st, func(p *types.Package) string { return p.Name() }) + "." + s.Field(x.Field).Name()
		}
	case *ssa.IndexAddr:
		return "element of " + describeAddr(x.X)
	case *ssa.Global:
		return "global " + x.Name()
	case *ssa.UnOp:
		return "*" + describeAddr(x.X)
	case *ssa.Alloc:
		return "variable " + x.Comment
	case *ssa.Parameter:
		return "*" + x.Name()
	case *ssa.FreeVar:
		return "captured " + x.Name()
	}
	return "memory"
}

func typeparamsDeref(t types.Type) types.Type {
	if p, ok := t.Underlying().(*types.Pointer); ok {
		return p.Elem()
	}
	return t
}
