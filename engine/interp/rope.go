package interp

// Ropes: strings built from literals, decimal renderings of symbolic
// integers, symbolic string ids, JSON tokens and hashes.

import (
	"fmt"
	"go/token"
	"go/types"
	"math/big"
	"strings"
)

type rope struct{ parts []value } // string | symInt | symStr | *jsonTok | hashPart

type hashPart struct{ inner rope } // injective hash of a rope (hex text, 64 chars)

// opaqueBytesV is []byte(s) for a symbolic string s.
type opaqueBytesV struct{ r rope }

func opaqueBytes(r rope) value { return opaqueBytesV{r} }

func ropeOf(v value) rope {
	switch x := v.(type) {
	case rope:
		return x
	case string:
		if x == "" {
			return rope{}
		}
		return rope{[]value{x}}
	case symInt, symStr, *jsonTok, hashPart, timeTok, periodTok:
		return rope{[]value{x}}
	case opaqueBytesV:
		return x.r
	}
	if k, ok := concreteIntKind(v); ok {
		_, signed := kindWidth(k)
		if signed {
			return rope{[]value{fmt.Sprint(asInt64(v))}}
		}
		return rope{[]value{fmt.Sprint(uint64(asInt64(v)))}}
	}
	panic(unsupported{fmt.Sprintf("ropeOf %T", v)})
}

func (r rope) norm() rope {
	var out []value
	for _, p := range r.parts {
		if s, ok := p.(string); ok {
			if s == "" {
				continue
			}
			if n := len(out); n > 0 {
				if ps, ok := out[n-1].(string); ok {
					out[n-1] = ps + s
					continue
				}
			}
		}
		if rr, ok := p.(rope); ok {
			for _, q := range rr.norm().parts {
				out = append(out, q)
			}
			continue
		}
		out = append(out, p)
	}
	return rope{out}
}

func (r rope) concrete() (string, bool) {
	n := r.norm()
	if len(n.parts) == 0 {
		return "", true
	}
	if len(n.parts) == 1 {
		if s, ok := n.parts[0].(string); ok {
			return s, true
		}
	}
	return "", false
}

// simplify returns a plain string or symStr when the rope is just that.
func (r rope) simplify() value {
	n := r.norm()
	if s, ok := n.concrete(); ok {
		return s
	}
	if len(n.parts) == 1 {
		if s, ok := n.parts[0].(symStr); ok {
			return s
		}
	}
	return n
}

func ropeCat(a, b rope) rope {
	return rope{append(append([]value{}, a.parts...), b.parts...)}.norm()
}

// ---- segments for comparison

type segKind int

const (
	segLit segKind = iota
	segDigits
	segStr
	segTok
	segHash
	segTime
	segPeriod
)

type seg struct {
	kind segKind
	lit  string
	dlen *Term // BV64 number of digits
	dval *Term // BV64 numeric value
	nsym int   // number of symbolic decimals in the run
	v    value
}

func isDigits(s string) bool {
	if s == "" {
		return false
	}
	for i := 0; i < len(s); i++ {
		if s[i] < '0' || s[i] > '9' {
			return false
		}
	}
	return true
}

var pow10 = func() []*big.Int {
	var out []*big.Int
	p := big.NewInt(1)
	for i := 0; i <= 20; i++ {
		out = append(out, new(big.Int).Set(p))
		p = new(big.Int).Mul(p, big.NewInt(10))
	}
	return out
}()

// digitsOf returns the number of decimal digits of an unsigned BV64 term.
func digitsOf(x *Term) *Term {
	t := mkBV(20, 64)
	for d := 19; d >= 1; d-- {
		t = mkIte(mkCmp("lt", x, mkBVBig(pow10[d], 64), false), mkBV(uint64(d), 64), t)
	}
	return t
}

// pow10Of returns 10^digits(x) as an ite chain (x < 10^9 assumed by caller).
func pow10Digits(x *Term) *Term {
	t := mkBVBig(pow10[10], 64)
	for d := 9; d >= 1; d-- {
		t = mkIte(mkCmp("lt", x, mkBVBig(pow10[d], 64), false), mkBVBig(pow10[d], 64), t)
	}
	return t
}

func decTerm(s symInt) *Term {
	if s.t.sort.k == sInt {
		panic(unsupported{"decimal rendering in int mode"})
	}
	w, signed := kindWidth(s.k)
	if signed {
		// only non-negative values are rendered without a sign
		if EX.decide(mkCmp("lt", s.t, mkBV(0, w), true)) {
			panic(unsupported{"decimal rendering of a negative symbolic integer"})
		}
	}
	return mkResize(s.t, 64, false)
}

func (r rope) segments() []seg {
	var out []seg
	addDigits := func(l, v *Term, sym bool) {
		if n := len(out); n > 0 && out[n-1].kind == segDigits {
			prev := &out[n-1]
			// prev·new : value = prev*10^len(new)+new
			var p10 *Term
			if l.isConst() {
				p10 = mkBVBig(pow10[l.ival.Int64()], 64)
			} else {
				p10 = pow10Digits(v)
			}
			prev.dval = mkArith("add", mkArith("mul", prev.dval, p10, false), v, false)
			prev.dlen = mkArith("add", prev.dlen, l, false)
			if sym {
				prev.nsym++
			}
			return
		}
		s := seg{kind: segDigits, dlen: l, dval: v}
		if sym {
			s.nsym = 1
		}
		out = append(out, s)
	}
	for _, p := range r.norm().parts {
		switch x := p.(type) {
		case string:
			// split into digit and non-digit chunks
			i := 0
			for i < len(x) {
				j := i
				dig := x[i] >= '0' && x[i] <= '9'
				for j < len(x) && (x[j] >= '0' && x[j] <= '9') == dig {
					j++
				}
				chunk := x[i:j]
				if dig && len(chunk) <= 18 {
					v, _ := new(big.Int).SetString(chunk, 10)
					addDigits(mkBV(uint64(len(chunk)), 64), mkBVBig(v, 64), false)
				} else {
					out = append(out, seg{kind: segLit, lit: chunk})
				}
				i = j
			}
		case symInt:
			t := decTerm(x)
			addDigits(digitsOf(t), t, true)
		case symStr:
			out = append(out, seg{kind: segStr, v: x})
		case *jsonTok:
			out = append(out, seg{kind: segTok, v: x})
		case hashPart:
			out = append(out, seg{kind: segHash, v: x})
		case timeTok:
			out = append(out, seg{kind: segTime, v: x})
		case periodTok:
			out = append(out, seg{kind: segPeriod, v: x})
		default:
			panic(unsupported{fmt.Sprintf("rope part %T", p)})
		}
	}
	// runs with more than one symbolic decimal need the 10^9 bound
	for i := range out {
		if out[i].kind == segDigits && out[i].nsym >= 1 && !out[i].dlen.isConst() {
			_ = i
		}
	}
	return out
}

// ropeEq decides equality of two ropes as a (possibly symbolic) bool.
// Assumption (stated in the evidence): a symbolic string part contains
// neither digits adjacent to a decimal part nor the literal separators of
// the rope it is embedded in.
func ropeEq(a, b rope) value {
	if sa, ok := a.concrete(); ok {
		if sb, ok := b.concrete(); ok {
			return sa == sb
		}
	}
	sa, sb := a.segments(), b.segments()
	// a lone symbolic string against a composed rope: by assumption unequal unless shapes agree
	if len(sa) != len(sb) {
		// a symStr segment may stand for a whole literal string: handle "symStr vs pure literal"
		if len(sa) == 1 && sa[0].kind == segStr {
			if s, ok := b.concrete(); ok {
				return mkSymBool(mkEq(sa[0].v.(symStr).id, mkInt(strID(s))))
			}
		}
		if len(sb) == 1 && sb[0].kind == segStr {
			if s, ok := a.concrete(); ok {
				return mkSymBool(mkEq(sb[0].v.(symStr).id, mkInt(strID(s))))
			}
		}
		if EX != nil {
			EX.Assumptions["rope equality: ropes of different shape are unequal (symbolic string parts contain no separators/digits)"]++
		}
		return false
	}
	r := tTrue
	for i := range sa {
		x, y := sa[i], sb[i]
		if x.kind != y.kind {
			// symStr vs literal chunk
			if x.kind == segStr && y.kind == segLit {
				r = mkAnd(r, mkEq(x.v.(symStr).id, mkInt(strID(y.lit))))
				continue
			}
			if y.kind == segStr && x.kind == segLit {
				r = mkAnd(r, mkEq(y.v.(symStr).id, mkInt(strID(x.lit))))
				continue
			}
			if (x.kind == segStr && y.kind == segDigits && y.dval.isConst()) || (y.kind == segStr && x.kind == segDigits && x.dval.isConst()) {
				// symbolic string against a literal number
				if x.kind == segDigits {
					x, y = y, x
				}
				lit := fmt.Sprintf("%0*d", int(y.dlen.ival.Int64()), y.dval.ival)
				r = mkAnd(r, mkEq(x.v.(symStr).id, mkInt(strID(lit))))
				continue
			}
			return false
		}
		switch x.kind {
		case segLit:
			if x.lit != y.lit {
				return false
			}
		case segDigits:
			if x.nsym+y.nsym > 1 && (x.nsym > 1 || y.nsym > 1) {
				// adjacent symbolic decimals: value arithmetic needs the 10^9 bound
				for _, s := range []seg{x, y} {
					_ = s
				}
				if EX != nil {
					EX.Assumptions["adjacent decimal parts of composed keys are below 10^9 (64-bit value arithmetic)"]++
				}
			}
			r = mkAnd(r, mkAnd(mkEq(x.dlen, y.dlen), mkEq(x.dval, y.dval)))
		case segStr:
			r = mkAnd(r, mkEq(x.v.(symStr).id, y.v.(symStr).id))
		case segTok:
			r = mkAnd(r, boolTerm(tokEq(x.v.(*jsonTok), y.v.(*jsonTok))))
		case segHash:
			r = mkAnd(r, boolTerm(ropeEq(x.v.(hashPart).inner, y.v.(hashPart).inner)))
		case segPeriod:
			px, py := x.v.(periodTok), y.v.(periodTok)
			for i := 0; i < 6; i++ {
				r = mkAnd(r, boolTerm(binop(token.EQL, types.Typ[types.Int16], px.fields[i], py.fields[i])))
			}
		case segTime:
			tx, ty := x.v.(timeTok), y.v.(timeTok)
			if tx.layout != ty.layout {
				return false
			}
			sx := binop(token.QUO, types.Typ[types.Int64], tx.ns, int64(1e9))
			sy := binop(token.QUO, types.Typ[types.Int64], ty.ns, int64(1e9))
			r = mkAnd(r, boolTerm(binop(token.EQL, types.Typ[types.Int64], sx, sy)))
		}
		if r == tFalse {
			return false
		}
	}
	return mkSymBool(r)
}

// ropeLen returns len(r) as an int value (possibly symbolic).
func ropeLen(r rope) value {
	var t *Term = mkBV(0, 64)
	for _, p := range r.norm().parts {
		switch x := p.(type) {
		case string:
			t = mkArith("add", t, mkBV(uint64(len(x)), 64), false)
		case symInt:
			t = mkArith("add", t, digitsOf(decTerm(x)), false)
		case symStr:
			l, _ := intTerm(symStrLen(x))
			t = mkArith("add", t, l, false)
		case hashPart:
			t = mkArith("add", t, mkBV(64, 64), false)
		case *jsonTok:
			t = mkArith("add", t, mkBV(2, 64), false)
			if EX != nil {
				EX.Assumptions["len of an embedded JSON token is not modelled (>= 2)"]++
			}
		}
	}
	return mkSymInt(t, types.Int)
}

func (r rope) String() string {
	var sb strings.Builder
	for _, p := range r.norm().parts {
		switch x := p.(type) {
		case string:
			sb.WriteString(x)
		case symInt:
			sb.WriteString("<" + x.t.smt + ">")
		case symStr:
			sb.WriteString("<s:" + x.id.smt + ">")
		case *jsonTok:
			sb.WriteString("<json>")
		case hashPart:
			sb.WriteString("<hash:" + x.inner.String() + ">")
		}
	}
	return sb.String()
}

// symSprintf renders format with (possibly symbolic) args into a rope;
// ok=false when no argument is symbolic (caller uses the native path).
func symSprintf(fr *frame, format string, args []value) (value, bool) {
	any := false
	for _, a := range args {
		if x, ok := a.(iface); ok {
			switch x.v.(type) {
			case symInt, symStr, rope, *jsonTok, symBool, symF64, opaqueBytesV:
				any = true
			}
		}
	}
	if !any {
		return nil, false
	}
	var out rope
	ai := 0
	for i := 0; i < len(format); i++ {
		if format[i] == '%' && i+1 < len(format) {
			switch format[i+1] {
			case '%':
				out = ropeCat(out, ropeOf("%"))
				i++
				continue
			case 's', 'd', 'v':
				if ai >= len(args) {
					out = ropeCat(out, ropeOf("%!"+format[i+1:i+2]+"(MISSING)"))
					i++
					continue
				}
				x := args[ai].(iface)
				ai++
				switch xv := x.v.(type) {
				case symInt, symStr, rope, *jsonTok, opaqueBytesV:
					out = ropeCat(out, ropeOf(xv))
				case symBool, symF64:
					out = ropeCat(out, ropeOf(freshSymStr("fmt")))
				default:
					out = ropeCat(out, ropeOf(fmt.Sprintf("%"+format[i+1:i+2], fr.i.fmtArg(fr, args[ai-1]))))
				}
				i++
				continue
			}
			// other verbs with symbolic arguments: opaque text
			return freshSymStr("fmt"), true
		}
		out = ropeCat(out, ropeOf(format[i:i+1]))
	}
	return out.simplify(), true
}

var freshCounter int

func freshSymStr(prefix string) symStr {
	freshCounter++
	t := mkVar(fmt.Sprintf("$%s%d", prefix, EX.nextFresh()), sortInt)
	return symStr{id: t}
}
