package interp

// Insertion-ordered maps for every Go map type. Key comparison is
// symbolic-aware: an undecided key equality forks the path (decide).

import (
	"go/types"
)

type oent struct {
	key, val value
}

type omap struct {
	keyType types.Type
	ents    []*oent
}

func makeMap(kt types.Type, reserve int64) value {
	return &omap{keyType: kt}
}

func (m *omap) find(k value) int {
	for i, e := range m.ents {
		if equals(m.keyType, e.key, k) {
			return i
		}
	}
	return -1
}

func (m *omap) lookup(k value) (value, bool) {
	if m == nil {
		return nil, false
	}
	if i := m.find(k); i >= 0 {
		return m.ents[i].val, true
	}
	return nil, false
}

func (m *omap) insert(k, v value) {
	if m == nil {
		panic(targetRuntimeError("assignment to entry in nil map"))
	}
	if i := m.find(k); i >= 0 {
		m.ents[i].val = v
		return
	}
	m.ents = append(m.ents, &oent{k, v})
}

func (m *omap) delete(k value) {
	if m == nil {
		return
	}
	if i := m.find(k); i >= 0 {
		m.ents = append(append([]*oent{}, m.ents[:i]...), m.ents[i+1:]...)
	}
}

func (m *omap) len() int {
	if m == nil {
		return 0
	}
	return len(m.ents)
}

type omapIter struct {
	m    *omap
	snap []*oent
	i    int
}

func (it *omapIter) next() tuple {
	for it.i < len(it.snap) {
		e := it.snap[it.i]
		it.i++
		// skip entries deleted during iteration
		live := false
		for _, x := range it.m.ents {
			if x == e {
				live = true
				break
			}
		}
		if live {
			return tuple{true, e.key, e.val}
		}
	}
	return tuple{false, nil, nil}
}
