package interp

import "go/types"

// mustDeref returns the element type of a pointer type (copy of
// x/tools/internal/mustDeref, the only internal dependency).
func mustDeref(t types.Type) types.Type {
	if ptr, ok := t.Underlying().(*types.Pointer); ok {
		return ptr.Elem()
	}
	if tp, ok := t.(*types.TypeParam); ok {
		_ = tp
	}
	panic("cannot dereference type " + t.String())
}
