package interp

// Pointer accessor, addressable reflect.Value model, DeepEqual, symbolic
// equality of composite values, deep copy, JSON tokens.

import (
	"fmt"
	"go/token"
	"go/types"
	"reflect"
	"strings"

	"golang.org/x/tools/go/ssa"
)

// ---------------------------------------------------------------- pointers

func siteOf(fr *frame, pos token.Pos) string {
	if fr == nil {
		return "?"
	}
	fn := fr.fn.String()
	return fn
}

// deref resolves a pointer operand; for a maybe-nil pointer the nil case is
// explored as a separate path that panics like Go does.
func deref(fr *frame, v value, what string) *value {
	switch x := v.(type) {
	case *value:
		if x == nil {
			panic(targetNilDeref(fr, what))
		}
		return x
	case optPtr:
		if EX.decide(x.present) {
			return x.p
		}
		panic(targetNilDeref(fr, what))
	}
	panic(fmt.Sprintf("deref of %T", v))
}

type nilDeref struct {
	site string
}

func (n nilDeref) Error() string { return "runtime error: invalid memory address or nil pointer dereference [" + n.site + "]" }
func (n nilDeref) RuntimeError() {}

func targetNilDeref(fr *frame, what string) nilDeref {
	site := "?"
	if fr != nil {
		site = fr.fn.String()
	}
	if what != "" {
		site += " " + what
	}
	return nilDeref{site}
}

// ptrParts returns (present, target) of any pointer value.
func ptrParts(v value) (*Term, *value) {
	switch x := v.(type) {
	case *value:
		return mkBool(x != nil), x
	case optPtr:
		return x.present, x.p
	}
	panic(fmt.Sprintf("ptrParts of %T", v))
}

func ptrEq(x, y value) value {
	px, p := ptrParts(x)
	py, q := ptrParts(y)
	same := mkBool(p == q)
	return mkSymBool(mkOr(mkAnd(mkNot(px), mkNot(py)), mkAnd(mkAnd(px, py), same)))
}

// ---------------------------------------------------------------- symbolic equality

func containsSym(v value, depth int) bool {
	if depth > 8 {
		return false
	}
	switch x := v.(type) {
	case symBool, symInt, symF64, symStr, rope, optPtr, *jsonTok, opaqueBytesV, timeTok, periodTok:
		return true
	case iface:
		return containsSym(x.v, depth+1)
	case structure:
		for _, f := range x {
			if containsSym(f, depth+1) {
				return true
			}
		}
	case array:
		for _, f := range x {
			if containsSym(f, depth+1) {
				return true
			}
		}
	}
	return false
}

// symEquals implements Go's == when a symbolic leaf is involved.
func symEquals(t types.Type, x, y value) (value, bool) {
	if !containsSym(x, 0) && !containsSym(y, 0) {
		return nil, false
	}
	return eqValue(t, x, y), true
}

func eqValue(t types.Type, x, y value) value {
	switch xv := x.(type) {
	case symBool:
		return symBoolBinop(token.EQL, x, y)
	case symInt:
		return symIntBinop(token.EQL, x, y)
	case symF64:
		return symFloatBinop(token.EQL, x, y)
	case symStr, rope:
		return strEq(x, y)
	case optPtr:
		return ptrEq(x, y)
	case *jsonTok:
		// a JSON token stands for a non-nil []byte; slices compare with nil only
		if ys, ok := y.([]value); ok {
			return ys != nil && false
		}
		return false
	case opaqueBytesV:
		return false
	case []value:
		switch y.(type) {
		case *jsonTok, opaqueBytesV:
			return false
		}
	case *value:
		if _, ok := y.(optPtr); ok {
			return ptrEq(x, y)
		}
		return xv == y.(*value)
	case bool:
		if _, ok := y.(symBool); ok {
			return symBoolBinop(token.EQL, x, y)
		}
	case string:
		switch y.(type) {
		case symStr, rope:
			return strEq(x, y)
		}
	case float64:
		if _, ok := y.(symF64); ok {
			return symFloatBinop(token.EQL, x, y)
		}
	case iface:
		yv := y.(iface)
		if xv.t == nil || yv.t == nil {
			return xv.t == nil && yv.t == nil
		}
		if !types.Identical(xv.t, yv.t) {
			return false
		}
		return eqValue(xv.t, xv.v, yv.v)
	case structure:
		yv := y.(structure)
		st := t.Underlying().(*types.Struct)
		var r value = true
		for i := range xv {
			if st.Field(i).Name() == "_" {
				continue
			}
			r = and2(r, eqValue(st.Field(i).Type(), xv[i], yv[i]))
			if b, ok := r.(bool); ok && !b {
				return false
			}
		}
		return r
	case array:
		yv := y.(array)
		et := t.Underlying().(*types.Array).Elem()
		var r value = true
		for i := range xv {
			r = and2(r, eqValue(et, xv[i], yv[i]))
		}
		return r
	}
	if _, ok := concreteIntKind(x); ok {
		if _, ok := y.(symInt); ok {
			return symIntBinop(token.EQL, x, y)
		}
	}
	return equalsConcrete(t, x, y)
}

// ---------------------------------------------------------------- reflect.Value model

var invalidRV = structure{rtype{nil}, nil, (*value)(nil)}

func mkRV(t types.Type, v value, addr *value) value { return structure{rtype{t}, v, addr} }

func rvAddr(v value) *value {
	s := v.(structure)
	if len(s) > 2 {
		if p, ok := s[2].(*value); ok {
			return p
		}
	}
	return nil
}

func rvCur(v value) value {
	if a := rvAddr(v); a != nil {
		return load(rV2T(v).t, a)
	}
	return v.(structure)[1]
}

func rvValid(v value) bool { return rV2T(v).t != nil }

func structFieldIndex(st *types.Struct, name string) int {
	for i := 0; i < st.NumFields(); i++ {
		if st.Field(i).Name() == name {
			return i
		}
	}
	return -1
}

var funcIDs = map[*ssa.Function]uintptr{}

func funcPointer(v value) uintptr {
	var f *ssa.Function
	switch x := v.(type) {
	case *ssa.Function:
		f = x
	case *closure:
		f = x.Fn
	default:
		panic(unsupported{fmt.Sprintf("reflect.Value.Pointer of %T", v)})
	}
	if f == nil {
		return 0
	}
	if _, ok := funcIDs[f]; !ok {
		funcIDs[f] = uintptr(0x1000 + 16*len(funcIDs))
	}
	return funcIDs[f]
}

func reflectPanic(msg string) { panic(targetPanic{iface{types.Typ[types.String], msg}}) }

func rvElem(fr *frame, rv value) value {
	if !rvValid(rv) {
		reflectPanic("reflect: call of reflect.Value.Elem on zero Value")
	}
	t := rV2T(rv).t
	switch x := rvCur(rv).(type) {
	case optPtr:
		if EX.decide(x.present) {
			return mkRV(t.Underlying().(*types.Pointer).Elem(), nil, x.p)
		}
		return invalidRV
	case iface:
		if x.t == nil {
			return invalidRV
		}
		return mkRV(x.t, x.v, nil)
	case *value:
		if x == nil {
			return invalidRV
		}
		return mkRV(t.Underlying().(*types.Pointer).Elem(), nil, x)
	default:
		reflectPanic(fmt.Sprintf("reflect: call of reflect.Value.Elem on %s Value", reflectKind(t)))
	}
	return nil
}

func rvField(rv value, i int) value {
	st, ok := rV2T(rv).t.Underlying().(*types.Struct)
	if !ok {
		reflectPanic("reflect: call of reflect.Value.Field on non-struct Value")
	}
	ft := st.Field(i).Type()
	if a := rvAddr(rv); a != nil {
		return mkRV(ft, nil, &(*a).(structure)[i])
	}
	return mkRV(ft, rvCur(rv).(structure)[i], nil)
}

func rvIsNil(rv value) value {
	if !rvValid(rv) {
		reflectPanic("reflect: call of reflect.Value.IsNil on zero Value")
	}
	switch x := rvCur(rv).(type) {
	case optPtr:
		return mkSymBool(mkNot(x.present))
	case *value:
		return x == nil
	case *vchan:
		return x == nil
	case *omap:
		return x == nil
	case []value:
		return x == nil
	case iface:
		return x.t == nil
	case *ssa.Function:
		return x == nil
	case *closure:
		return x == nil
	case *jsonTok:
		return false
	default:
		reflectPanic(fmt.Sprintf("reflect: call of reflect.Value.IsNil on %s Value", reflectKind(rV2T(rv).t)))
	}
	return nil
}

func init() {
	ext := externals
	ext["reflect.ValueOf"] = func(fr *frame, args []value) value {
		itf := args[0].(iface)
		if itf.t == nil {
			return invalidRV
		}
		return mkRV(itf.t, itf.v, nil)
	}
	ext["reflect.TypeOf"] = func(fr *frame, args []value) value {
		itf := args[0].(iface)
		if itf.t == nil {
			return iface{}
		}
		return makeReflectType(rtype{itf.t})
	}
	ext["reflect.SliceOf"] = func(fr *frame, args []value) value {
		return makeReflectType(rtype{types.NewSlice(args[0].(iface).v.(rtype).t)})
	}
	ext["reflect.New"] = func(fr *frame, args []value) value {
		t := args[0].(iface).v.(rtype).t
		p := new(value)
		*p = zero(t)
		return mkRV(types.NewPointer(t), p, nil)
	}
	ext["reflect.Zero"] = func(fr *frame, args []value) value {
		t := args[0].(iface).v.(rtype).t
		return mkRV(t, zero(t), nil)
	}
	ext["(reflect.Value).IsValid"] = func(fr *frame, args []value) value { return rvValid(args[0]) }
	ext["(reflect.Value).Kind"] = func(fr *frame, args []value) value {
		if !rvValid(args[0]) {
			return uint(reflect.Invalid)
		}
		return uint(reflectKind(rV2T(args[0]).t))
	}
	ext["(reflect.Value).Type"] = func(fr *frame, args []value) value {
		if !rvValid(args[0]) {
			reflectPanic("reflect: call of reflect.Value.Type on zero Value")
		}
		return makeReflectType(rV2T(args[0]))
	}
	ext["(reflect.Value).Elem"] = func(fr *frame, args []value) value { return rvElem(fr, args[0]) }
	ext["(reflect.Value).Field"] = func(fr *frame, args []value) value { return rvField(args[0], args[1].(int)) }
	ext["(reflect.Value).NumField"] = func(fr *frame, args []value) value {
		st, ok := rV2T(args[0]).t.Underlying().(*types.Struct)
		if !ok {
			reflectPanic("reflect: call of reflect.Value.NumField on non-struct Value")
		}
		return st.NumFields()
	}
	ext["(reflect.Value).FieldByName"] = func(fr *frame, args []value) value {
		if !rvValid(args[0]) {
			reflectPanic("reflect: call of reflect.Value.FieldByName on zero Value")
		}
		st, ok := rV2T(args[0]).t.Underlying().(*types.Struct)
		if !ok {
			reflectPanic(fmt.Sprintf("reflect: call of reflect.Value.FieldByName on %s Value", reflectKind(rV2T(args[0]).t)))
		}
		i := structFieldIndex(st, args[1].(string))
		if i < 0 {
			return invalidRV
		}
		return rvField(args[0], i)
	}
	ext["(reflect.Value).IsNil"] = func(fr *frame, args []value) value { return rvIsNil(args[0]) }
	ext["(reflect.Value).IsZero"] = func(fr *frame, args []value) value {
		t := rV2T(args[0]).t
		return deepEq(t, rvCur(args[0]), zero(t), map[[2]*value]bool{})
	}
	ext["(reflect.Value).CanSet"] = func(fr *frame, args []value) value { return rvAddr(args[0]) != nil }
	ext["(reflect.Value).CanAddr"] = func(fr *frame, args []value) value { return rvAddr(args[0]) != nil }
	ext["(reflect.Value).CanInterface"] = func(fr *frame, args []value) value {
		if !rvValid(args[0]) {
			reflectPanic("reflect: call of reflect.Value.CanInterface on zero Value")
		}
		return true
	}
	ext["(reflect.Value).Set"] = func(fr *frame, args []value) value {
		a := rvAddr(args[0])
		if a == nil {
			reflectPanic("reflect: reflect.Value.Set using unaddressable value")
		}
		store(rV2T(args[0]).t, a, rvCur(args[1]))
		return nil
	}
	ext["(reflect.Value).Interface"] = func(fr *frame, args []value) value {
		if !rvValid(args[0]) {
			reflectPanic("reflect: call of reflect.Value.Interface on zero Value")
		}
		t := rV2T(args[0]).t
		if _, isI := t.Underlying().(*types.Interface); isI {
			return rvCur(args[0])
		}
		return iface{t, rvCur(args[0])}
	}
	ext["(reflect.Value).Convert"] = func(fr *frame, args []value) value {
		t := args[1].(iface).v.(rtype).t
		src := rV2T(args[0]).t
		if !types.ConvertibleTo(src, t) {
			reflectPanic("reflect.Value.Convert: value of type " + src.String() + " cannot be converted to type " + t.String())
		}
		if types.Identical(src.Underlying(), t.Underlying()) {
			return mkRV(t, rvCur(args[0]), nil)
		}
		if _, isPtr := src.Underlying().(*types.Pointer); isPtr {
			return mkRV(t, rvCur(args[0]), nil)
		}
		return mkRV(t, conv(t, src, rvCur(args[0])), nil)
	}
	ext["(reflect.Value).Pointer"] = func(fr *frame, args []value) value { return funcPointer(rvCur(args[0])) }
	ext["(reflect.Value).Bool"] = func(fr *frame, args []value) value { return rvCur(args[0]) }
	ext["(reflect.Value).Uint"] = func(fr *frame, args []value) value {
		v := rvCur(args[0])
		return conv(types.Typ[types.Uint64], rV2T(args[0]).t, v)
	}
	ext["(reflect.Value).Int"] = func(fr *frame, args []value) value {
		v := rvCur(args[0])
		return conv(types.Typ[types.Int64], rV2T(args[0]).t, v)
	}
	ext["(reflect.Value).Float"] = func(fr *frame, args []value) value {
		v := rvCur(args[0])
		return conv(types.Typ[types.Float64], rV2T(args[0]).t, v)
	}
	ext["(reflect.Value).String"] = func(fr *frame, args []value) value {
		if !rvValid(args[0]) {
			return "<invalid Value>"
		}
		v := rvCur(args[0])
		switch v.(type) {
		case string, symStr, rope:
			return v
		}
		return "<" + rV2T(args[0]).t.String() + " Value>"
	}
	ext["(reflect.Value).Len"] = func(fr *frame, args []value) value {
		switch v := rvCur(args[0]).(type) {
		case []value:
			return len(v)
		case array:
			return len(v)
		case string:
			return len(v)
		case *omap:
			return v.len()
		}
		panic(unsupported{"reflect.Value.Len"})
	}
	ext["(reflect.Value).Index"] = func(fr *frame, args []value) value {
		i := args[1].(int)
		t := rV2T(args[0]).t
		switch v := rvCur(args[0]).(type) {
		case []value:
			return mkRV(t.Underlying().(*types.Slice).Elem(), nil, &v[i])
		case array:
			if a := rvAddr(args[0]); a != nil {
				return mkRV(t.Underlying().(*types.Array).Elem(), nil, &(*a).(array)[i])
			}
			return mkRV(t.Underlying().(*types.Array).Elem(), v[i], nil)
		}
		panic(unsupported{"reflect.Value.Index"})
	}
	ext["(reflect.rtype).Name"] = func(fr *frame, args []value) value {
		if n, ok := args[0].(rtype).t.(*types.Named); ok {
			return n.Obj().Name()
		}
		if b, ok := args[0].(rtype).t.(*types.Basic); ok {
			return b.Name()
		}
		return ""
	}
	ext["(reflect.StructTag).Get"] = func(fr *frame, args []value) value {
		return reflect.StructTag(args[0].(string)).Get(args[1].(string))
	}
	ext["(reflect.StructTag).Lookup"] = func(fr *frame, args []value) value {
		v, ok := reflect.StructTag(args[0].(string)).Lookup(args[1].(string))
		return tuple{v, ok}
	}
	ext["(reflect.Kind).String"] = func(fr *frame, args []value) value {
		return reflect.Kind(args[0].(uint)).String()
	}
	ext["reflect.DeepEqual"] = func(fr *frame, args []value) value {
		a, b := args[0].(iface), args[1].(iface)
		if a.t == nil || b.t == nil {
			return a.t == nil && b.t == nil
		}
		if !types.Identical(a.t, b.t) {
			return false
		}
		return deepEq(a.t, a.v, b.v, map[[2]*value]bool{})
	}
}

// deepEq is reflect.DeepEqual over interpreter values (symbolic-aware).
func deepEq(t types.Type, x, y value, seen map[[2]*value]bool) value {
	switch x.(type) {
	case symBool, symInt, symF64, symStr, rope:
		return eqValue(t, x, y)
	}
	switch y.(type) {
	case symBool, symInt, symF64, symStr, rope:
		return eqValue(t, x, y)
	}
	switch u := t.Underlying().(type) {
	case *types.Pointer:
		px, p := ptrParts(x)
		py, q := ptrParts(y)
		if p == q && px == py {
			return true
		}
		var inner value = true
		if p != nil && q != nil && p != q {
			k := [2]*value{p, q}
			if !seen[k] {
				seen[k] = true
				inner = deepEq(u.Elem(), *p, *q, seen)
			}
		}
		both := mkAnd(px, py)
		neither := mkAnd(mkNot(px), mkNot(py))
		return mkSymBool(mkOr(neither, mkAnd(both, boolTerm(inner))))
	case *types.Struct:
		xs, ys := x.(structure), y.(structure)
		var r value = true
		for i := 0; i < u.NumFields(); i++ {
			r = and2(r, deepEq(u.Field(i).Type(), xs[i], ys[i], seen))
			if b, ok := r.(bool); ok && !b {
				return false
			}
		}
		return r
	case *types.Slice:
		if tx, ok := x.(*jsonTok); ok {
			if ty, ok := y.(*jsonTok); ok {
				return tokEq(tx, ty)
			}
			return false
		}
		if _, ok := y.(*jsonTok); ok {
			return false
		}
		xs, ys := x.([]value), y.([]value)
		if (xs == nil) != (ys == nil) || len(xs) != len(ys) {
			return false
		}
		var r value = true
		for i := range xs {
			r = and2(r, deepEq(u.Elem(), xs[i], ys[i], seen))
			if b, ok := r.(bool); ok && !b {
				return false
			}
		}
		return r
	case *types.Array:
		xs, ys := x.(array), y.(array)
		var r value = true
		for i := range xs {
			r = and2(r, deepEq(u.Elem(), xs[i], ys[i], seen))
		}
		return r
	case *types.Interface:
		xi, yi := x.(iface), y.(iface)
		if xi.t == nil || yi.t == nil {
			return xi.t == nil && yi.t == nil
		}
		if !types.Identical(xi.t, yi.t) {
			return false
		}
		return deepEq(xi.t, xi.v, yi.v, seen)
	case *types.Signature:
		isNil := func(v value) bool {
			switch f := v.(type) {
			case *ssa.Function:
				return f == nil
			case *closure:
				return f == nil
			case nil:
				return true
			}
			return false
		}
		return isNil(x) && isNil(y)
	case *types.Map:
		xm, ym := x.(*omap), y.(*omap)
		if (xm == nil) != (ym == nil) || xm.len() != ym.len() {
			return false
		}
		if xm == ym {
			return true
		}
		var r value = true
		for _, a := range xm.ents {
			bv, ok := ym.lookup(a.key)
			if !ok {
				return false
			}
			r = and2(r, deepEq(u.Elem(), a.val, bv, seen))
			if b, ok := r.(bool); ok && !b {
				return false
			}
		}
		return r
	case *types.Chan:
		return x == y
	default:
		return eqValue(t, x, y)
	}
}

// ---------------------------------------------------------------- deep copy

// deepCopy copies v; memo keeps pointer identity; jsonNorm applies the JSON
// round-trip normalisation driven by struct tags.
func deepCopy(t types.Type, v value, memo map[*value]*value, jsonNorm bool) value {
	switch u := t.Underlying().(type) {
	case *types.Pointer:
		if o, ok := v.(optPtr); ok {
			return optPtr{o.present, deepCopy(t, o.p, memo, jsonNorm).(*value)}
		}
		p := v.(*value)
		if p == nil {
			return p
		}
		if q, ok := memo[p]; ok {
			return q
		}
		q := new(value)
		memo[p] = q
		*q = deepCopy(u.Elem(), *p, memo, jsonNorm)
		return q
	case *types.Struct:
		s := v.(structure)
		out := make(structure, len(s))
		for i := range s {
			ft := u.Field(i).Type()
			out[i] = deepCopy(ft, s[i], memo, jsonNorm)
			if jsonNorm {
				tag := reflect.StructTag(u.Tag(i)).Get("json")
				if !u.Field(i).Exported() || tag == "-" {
					out[i] = zero(ft)
					continue
				}
				if strings.Contains(tag, ",omitempty") {
					if sl, ok := out[i].([]value); ok && len(sl) == 0 {
						out[i] = []value(nil)
					}
					if m, ok := out[i].(*omap); ok && m.len() == 0 {
						out[i] = (*omap)(nil)
					}
				}
				if named, ok := ft.(*types.Named); ok && named.Obj().Name() == "TimePeriodType" {
					panic(unsupported{"JSON round trip of TimePeriodType (custom codec not modelled)"})
				}
				if pt, ok := ft.(*types.Pointer); ok {
					if named, ok := pt.Elem().(*types.Named); ok && named.Obj().Name() == "TimePeriodType" {
						pr, _ := ptrParts(out[i])
						if pr != tFalse {
							if EX.decide(pr) {
								panic(unsupported{"JSON round trip of TimePeriodType (custom codec not modelled)"})
							}
						}
					}
				}
			}
		}
		return out
	case *types.Slice:
		if tok, ok := v.(*jsonTok); ok {
			return tok
		}
		s := v.([]value)
		if s == nil {
			return s
		}
		out := make([]value, len(s))
		for i := range s {
			out[i] = deepCopy(u.Elem(), s[i], memo, jsonNorm)
		}
		return out
	case *types.Array:
		s := v.(array)
		out := make(array, len(s))
		for i := range s {
			out[i] = deepCopy(u.Elem(), s[i], memo, jsonNorm)
		}
		return out
	case *types.Interface:
		x := v.(iface)
		if x.t == nil {
			return x
		}
		return iface{x.t, deepCopy(x.t, x.v, memo, jsonNorm)}
	case *types.Map:
		m := v.(*omap)
		if m == nil {
			return m
		}
		out := &omap{keyType: m.keyType}
		for _, e := range m.ents {
			out.ents = append(out.ents, &oent{e.key, deepCopy(u.Elem(), e.val, memo, jsonNorm)})
		}
		return out
	default:
		return v
	}
}

// ---------------------------------------------------------------- JSON tokens

// jsonTok stands for the []byte produced by json.Marshal: an opaque value
// holding a normalised deep snapshot of what was marshalled.
type jsonTok struct {
	t types.Type
	v value
}

func tokEq(a, b *jsonTok) value {
	if a == b {
		return true
	}
	ta, va := a.t, a.v
	tb, vb := b.t, b.v
	if !types.Identical(ta, tb) {
		return false
	}
	return deepEq(ta, va, vb, map[[2]*value]bool{})
}

func init() {
	externals["encoding/json.Marshal"] = func(fr *frame, args []value) value {
		x := args[0].(iface)
		if x.t == nil {
			return tuple{bytesToValue("null"), iface{}}
		}
		EX.Stubs["encoding/json.Marshal (opaque token with normalised snapshot)"]++
		snap := deepCopy(x.t, x.v, map[*value]*value{}, true)
		return tuple{&jsonTok{x.t, snap}, iface{}}
	}
	externals["encoding/json.Unmarshal"] = func(fr *frame, args []value) value {
		tok, ok := args[0].(*jsonTok)
		if !ok {
			panic(unsupported{"json.Unmarshal of bytes that are not a token"})
		}
		EX.Stubs["encoding/json.Unmarshal (copy of token snapshot)"]++
		dst := args[1].(iface)
		pt := dst.t.Underlying().(*types.Pointer)
		var src value = tok.v
		st := tok.t
		for {
			if types.Identical(st, pt.Elem()) {
				break
			}
			sp, ok := st.Underlying().(*types.Pointer)
			if !ok {
				panic(unsupported{fmt.Sprintf("json.Unmarshal type mismatch %v vs %v", tok.t, pt.Elem())})
			}
			pr, p := ptrParts(src)
			if p == nil || !EX.decide(pr) {
				return iface{} // JSON null: the destination is left as it is
			}
			src = *p
			st = sp.Elem()
		}
		target := deref(fr, dst.v, "json.Unmarshal target")
		store(pt.Elem(), target, deepCopy(st, src, map[*value]*value{}, false))
		return iface{}
	}
}

func bytesToValue(s string) []value {
	out := make([]value, len(s))
	for i := 0; i < len(s); i++ {
		out[i] = s[i]
	}
	return out
}

func valueToString(b []value) string {
	bs := make([]byte, len(b))
	for i, x := range b {
		bs[i] = x.(byte)
	}
	return string(bs)
}
