// Copyright 2013 The Go Authors. All rights reserved.
// Use of this source code is governed by a BSD-style
// license that can be found in the LICENSE file.

package interp

// Emulated functions that we cannot interpret because they are
// external or because they use "unsafe" or "reflect" operations.

import (
	"bytes"
	"math"
	"os"
	"runtime"
	"sort"
	"strconv"
	"strings"
	"time"
	"unicode/utf8"
)

type externalFn func(fr *frame, args []value) value

// TODO(adonovan): fix: reflect.Value abstracts an lvalue or an
// rvalue; Set() causes mutations that can be observed via aliases.
// We have not captured that correctly here.

// Key strings are from Function.String().
var externals = make(map[string]externalFn)

func init() {
	// That little dot ۰ is an Arabic zero numeral (U+06F0), categories [Nd].
	for k, v := range map[string]externalFn{
		"(reflect.error).Error":           ext۰reflect۰error۰Error,
		"(reflect.rtype).Bits":            ext۰reflect۰rtype۰Bits,
		"(reflect.rtype).Elem":            ext۰reflect۰rtype۰Elem,
		"(reflect.rtype).Field":           ext۰reflect۰rtype۰Field,
		"(reflect.rtype).In":              ext۰reflect۰rtype۰In,
		"(reflect.rtype).Kind":            ext۰reflect۰rtype۰Kind,
		"(reflect.rtype).NumField":        ext۰reflect۰rtype۰NumField,
		"(reflect.rtype).NumIn":           ext۰reflect۰rtype۰NumIn,
		"(reflect.rtype).NumMethod":       ext۰reflect۰rtype۰NumMethod,
		"(reflect.rtype).NumOut":          ext۰reflect۰rtype۰NumOut,
		"(reflect.rtype).Out":             ext۰reflect۰rtype۰Out,
		"(reflect.rtype).Size":            ext۰reflect۰rtype۰Size,
		"(reflect.rtype).String":          ext۰reflect۰rtype۰String,
		"bytes.Equal":                     ext۰bytes۰Equal,
		"bytes.IndexByte":                 ext۰bytes۰IndexByte,
		"fmt.Sprint":                      ext۰fmt۰Sprint,
		"math.Abs":                        ext۰math۰Abs,
		"math.Copysign":                   ext۰math۰Copysign,
		"math.Exp":                        ext۰math۰Exp,
		"math.Float32bits":                ext۰math۰Float32bits,
		"math.Float32frombits":            ext۰math۰Float32frombits,
		"math.Float64bits":                ext۰math۰Float64bits,
		"math.Float64frombits":            ext۰math۰Float64frombits,
		"math.Inf":                        ext۰math۰Inf,
		"math.IsNaN":                      ext۰math۰IsNaN,
		"math.Ldexp":                      ext۰math۰Ldexp,
		"math.Log":                        ext۰math۰Log,
		"math.Min":                        ext۰math۰Min,
		"math.NaN":                        ext۰math۰NaN,
		"math.Sqrt":                       ext۰math۰Sqrt,
		"os.Exit":                         ext۰os۰Exit,
		"os.Getenv":                       ext۰os۰Getenv,
		"runtime.Breakpoint":              ext۰runtime۰Breakpoint,
		"runtime.GC":                      ext۰runtime۰GC,
		"runtime.GOMAXPROCS":              ext۰runtime۰GOMAXPROCS,
		"runtime.GOROOT":                  ext۰runtime۰GOROOT,
		"runtime.Goexit":                  ext۰runtime۰Goexit,
		"runtime.Gosched":                 ext۰runtime۰Gosched,
		"runtime.NumCPU":                  ext۰runtime۰NumCPU,
		"sort.Float64s":                   ext۰sort۰Float64s,
		"sort.Ints":                       ext۰sort۰Ints,
		"sort.Strings":                    ext۰sort۰Strings,
		"strconv.Atoi":                    ext۰strconv۰Atoi,
		"strconv.Itoa":                    ext۰strconv۰Itoa,
		"strconv.FormatFloat":             ext۰strconv۰FormatFloat,
		"strings.Count":                   ext۰strings۰Count,
		"strings.EqualFold":               ext۰strings۰EqualFold,
		"strings.Index":                   ext۰strings۰Index,
		"strings.IndexByte":               ext۰strings۰IndexByte,
		"strings.Replace":                 ext۰strings۰Replace,
		"strings.ToLower":                 ext۰strings۰ToLower,
		"time.Sleep":                      ext۰time۰Sleep,
		"unicode/utf8.DecodeRuneInString": ext۰unicode۰utf8۰DecodeRuneInString,
	} {
		externals[k] = v
	}
}

func ext۰bytes۰Equal(fr *frame, args []value) value {
	// func Equal(a, b []byte) bool
	a := args[0].([]value)
	b := args[1].([]value)
	if len(a) != len(b) {
		return false
	}
	for i := range a {
		if a[i] != b[i] {
			return false
		}
	}
	return true
}

func ext۰bytes۰IndexByte(fr *frame, args []value) value {
	// func IndexByte(s []byte, c byte) int
	s := args[0].([]value)
	c := args[1].(byte)
	for i, b := range s {
		if b.(byte) == c {
			return i
		}
	}
	return -1
}

func ext۰math۰Float64frombits(fr *frame, args []value) value {
	return math.Float64frombits(args[0].(uint64))
}

func ext۰math۰Float64bits(fr *frame, args []value) value {
	return math.Float64bits(args[0].(float64))
}

func ext۰math۰Float32frombits(fr *frame, args []value) value {
	return math.Float32frombits(args[0].(uint32))
}

func ext۰math۰Abs(fr *frame, args []value) value {
	return math.Abs(args[0].(float64))
}

func ext۰math۰Copysign(fr *frame, args []value) value {
	return math.Copysign(args[0].(float64), args[1].(float64))
}

func ext۰math۰Exp(fr *frame, args []value) value {
	return math.Exp(args[0].(float64))
}

func ext۰math۰Float32bits(fr *frame, args []value) value {
	return math.Float32bits(args[0].(float32))
}

func ext۰math۰Min(fr *frame, args []value) value {
	return math.Min(args[0].(float64), args[1].(float64))
}

func ext۰math۰NaN(fr *frame, args []value) value {
	return math.NaN()
}

func ext۰math۰IsNaN(fr *frame, args []value) value {
	return math.IsNaN(args[0].(float64))
}

func ext۰math۰Inf(fr *frame, args []value) value {
	return math.Inf(args[0].(int))
}

func ext۰math۰Ldexp(fr *frame, args []value) value {
	return math.Ldexp(args[0].(float64), args[1].(int))
}

func ext۰math۰Log(fr *frame, args []value) value {
	return math.Log(args[0].(float64))
}

func ext۰math۰Sqrt(fr *frame, args []value) value {
	return math.Sqrt(args[0].(float64))
}

func ext۰runtime۰Breakpoint(fr *frame, args []value) value {
	runtime.Breakpoint()
	return nil
}

func ext۰sort۰Ints(fr *frame, args []value) value {
	x := args[0].([]value)
	sort.Slice(x, func(i, j int) bool {
		return x[i].(int) < x[j].(int)
	})
	return nil
}
func ext۰sort۰Strings(fr *frame, args []value) value {
	x := args[0].([]value)
	sort.Slice(x, func(i, j int) bool {
		return x[i].(string) < x[j].(string)
	})
	return nil
}
func ext۰sort۰Float64s(fr *frame, args []value) value {
	x := args[0].([]value)
	sort.Slice(x, func(i, j int) bool {
		return x[i].(float64) < x[j].(float64)
	})
	return nil
}

func ext۰strconv۰Atoi(fr *frame, args []value) value {
	i, e := strconv.Atoi(args[0].(string))
	if e != nil {
		return tuple{i, iface{fr.i.runtimeErrorString, e.Error()}}
	}
	return tuple{i, iface{}}
}
func ext۰strconv۰Itoa(fr *frame, args []value) value {
	return strconv.Itoa(args[0].(int))
}
func ext۰strconv۰FormatFloat(fr *frame, args []value) value {
	return strconv.FormatFloat(args[0].(float64), args[1].(byte), args[2].(int), args[3].(int))
}

func ext۰strings۰Count(fr *frame, args []value) value {
	return strings.Count(args[0].(string), args[1].(string))
}

func ext۰strings۰EqualFold(fr *frame, args []value) value {
	return strings.EqualFold(args[0].(string), args[1].(string))
}
func ext۰strings۰IndexByte(fr *frame, args []value) value {
	return strings.IndexByte(args[0].(string), args[1].(byte))
}

func ext۰strings۰Index(fr *frame, args []value) value {
	return strings.Index(args[0].(string), args[1].(string))
}

func ext۰strings۰Replace(fr *frame, args []value) value {
	// func Replace(s, old, new string, n int) string
	s := args[0].(string)
	new := args[1].(string)
	old := args[2].(string)
	n := args[3].(int)
	return strings.Replace(s, old, new, n)
}

func ext۰strings۰ToLower(fr *frame, args []value) value {
	return strings.ToLower(args[0].(string))
}

func ext۰runtime۰GOMAXPROCS(fr *frame, args []value) value {
	// Ignore args[0]; don't let the interpreted program
	// set the interpreter's GOMAXPROCS!
	return runtime.GOMAXPROCS(0)
}

func ext۰runtime۰Goexit(fr *frame, args []value) value {
	// TODO(adonovan): don't kill the interpreter's main goroutine.
	runtime.Goexit()
	return nil
}

func ext۰runtime۰GOROOT(fr *frame, args []value) value {
	return runtime.GOROOT()
}

func ext۰runtime۰GC(fr *frame, args []value) value {
	runtime.GC()
	return nil
}

func ext۰runtime۰Gosched(fr *frame, args []value) value {
	runtime.Gosched()
	return nil
}

func ext۰runtime۰NumCPU(fr *frame, args []value) value {
	return runtime.NumCPU()
}

func ext۰time۰Sleep(fr *frame, args []value) value {
	time.Sleep(time.Duration(args[0].(int64)))
	return nil
}

func ext۰os۰Getenv(fr *frame, args []value) value {
	name := args[0].(string)
	switch name {
	case "GOSSAINTERP":
		return "1"
	}
	return os.Getenv(name)
}

func ext۰os۰Exit(fr *frame, args []value) value {
	panic(exitPanic(args[0].(int)))
}

func ext۰unicode۰utf8۰DecodeRuneInString(fr *frame, args []value) value {
	r, n := utf8.DecodeRuneInString(args[0].(string))
	return tuple{r, n}
}

// A fake function for turning an arbitrary value into a string.
// Handles only the cases needed by the tests.
// Uses same logic as 'print' built-in.
func ext۰fmt۰Sprint(fr *frame, args []value) value {
	buf := new(bytes.Buffer)
	wasStr := false
	for i, arg := range args[0].([]value) {
		x := arg.(iface).v
		_, isStr := x.(string)
		if i > 0 && !wasStr && !isStr {
			buf.WriteByte(' ')
		}
		wasStr = isStr
		buf.WriteString(toString(x))
	}
	return buf.String()
}
