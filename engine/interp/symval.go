package interp

// Symbolic scalar values and the operators over them.

import (
	"fmt"
	"go/token"
	"go/types"
	"math/big"
	"strconv"
	"sync"
)

type symBool struct{ t *Term }
type symInt struct {
	t *Term
	k types.BasicKind
}
type symF64 struct{ t *Term }

// symStr is a string known only by identity: an Int-sorted id; interned
// literals have fixed ids. dom (optional) lists the possible values.
type symStr struct {
	id  *Term
	dom []string
}

// optPtr is a pointer that is nil iff !present.
type optPtr struct {
	present *Term
	p       *value
}

func isSymScalar(v value) bool {
	switch v.(type) {
	case symBool, symInt, symF64, symStr, rope:
		return true
	}
	return false
}

func termOf(v value) *Term {
	switch x := v.(type) {
	case symBool:
		return x.t
	case symInt:
		return x.t
	case symF64:
		return x.t
	case symStr:
		return x.id
	}
	return nil
}

func kindWidth(k types.BasicKind) (int, bool) {
	switch k {
	case types.Int, types.Int64:
		return 64, true
	case types.Int32:
		return 32, true
	case types.Int16:
		return 16, true
	case types.Int8:
		return 8, true
	case types.Uint, types.Uint64, types.Uintptr:
		return 64, false
	case types.Uint32:
		return 32, false
	case types.Uint16:
		return 16, false
	case types.Uint8:
		return 8, false
	}
	panic(fmt.Sprintf("kindWidth: %v", k))
}

func basicKindOf(t types.Type) (types.BasicKind, bool) {
	b, ok := t.Underlying().(*types.Basic)
	if !ok {
		return 0, false
	}
	return b.Kind(), true
}

func concreteIntKind(v value) (types.BasicKind, bool) {
	switch v.(type) {
	case int:
		return types.Int, true
	case int8:
		return types.Int8, true
	case int16:
		return types.Int16, true
	case int32:
		return types.Int32, true
	case int64:
		return types.Int64, true
	case uint:
		return types.Uint, true
	case uint8:
		return types.Uint8, true
	case uint16:
		return types.Uint16, true
	case uint32:
		return types.Uint32, true
	case uint64:
		return types.Uint64, true
	case uintptr:
		return types.Uintptr, true
	}
	return 0, false
}

func intModeOn() bool { return EX != nil && EX.cfg.IntMode }

// intTerm lifts a concrete or symbolic integer to a term.
func intTerm(v value) (*Term, types.BasicKind) {
	if s, ok := v.(symInt); ok {
		return s.t, s.k
	}
	k, ok := concreteIntKind(v)
	if !ok {
		panic(unsupported{fmt.Sprintf("intTerm of %T", v)})
	}
	w, signed := kindWidth(k)
	if intModeOn() {
		if signed {
			return mkInt(asInt64(v)), k
		}
		return mkIntBig(new(big.Int).SetUint64(uint64(asInt64(v)))), k
	}
	if signed {
		return mkBVBig(big.NewInt(asInt64(v)), w), k
	}
	return mkBV(uint64(asInt64(v)), w), k
}

func boolTerm(v value) *Term {
	switch x := v.(type) {
	case symBool:
		return x.t
	case bool:
		return mkBool(x)
	}
	panic(unsupported{fmt.Sprintf("boolTerm of %T", v)})
}

func floatTerm(v value) *Term {
	switch x := v.(type) {
	case symF64:
		return x.t
	case float64:
		return mkFP(x)
	case float32:
		return mkFP(float64(x))
	}
	panic(unsupported{fmt.Sprintf("floatTerm of %T", v)})
}

// mkSymBool wraps a term, folding constants back to Go bools.
func mkSymBool(t *Term) value {
	if t.isConst() {
		return t.bval
	}
	return symBool{t}
}

func concreteOfKind(k types.BasicKind, v *big.Int) value {
	w, signed := kindWidth(k)
	var i int64
	var u uint64
	if signed {
		if v.Sign() >= 0 && v.BitLen() >= w {
			v = toSigned(v, w)
		}
		i = v.Int64()
	} else {
		u = v.Uint64()
	}
	switch k {
	case types.Int:
		return int(i)
	case types.Int8:
		return int8(i)
	case types.Int16:
		return int16(i)
	case types.Int32:
		return int32(i)
	case types.Int64:
		return i
	case types.Uint:
		return uint(u)
	case types.Uint8:
		return uint8(u)
	case types.Uint16:
		return uint16(u)
	case types.Uint32:
		return uint32(u)
	case types.Uint64:
		return u
	case types.Uintptr:
		return uintptr(u)
	}
	panic("concreteOfKind")
}

func mkSymInt(t *Term, k types.BasicKind) value {
	if t.isConst() {
		return concreteOfKind(k, t.ival)
	}
	return symInt{t, k}
}

func mkSymF64(t *Term) value {
	if t.isConst() {
		return t.fval
	}
	return symF64{t}
}

// addOverflowObligation records (Int mode) that t must fit kind k.
func rangeObligation(t *Term, k types.BasicKind) {
	if !intModeOn() || t.isConst() {
		return
	}
	if EX.spec > 0 {
		panic(specAbort{"range obligation inside a speculative region"})
	}
	w, signed := kindWidth(k)
	var lo, hi *big.Int
	if signed {
		hi = new(big.Int).Sub(new(big.Int).Lsh(big.NewInt(1), uint(w-1)), big.NewInt(1))
		lo = new(big.Int).Neg(new(big.Int).Lsh(big.NewInt(1), uint(w-1)))
	} else {
		lo = big.NewInt(0)
		hi = new(big.Int).Sub(new(big.Int).Lsh(big.NewInt(1), uint(w)), big.NewInt(1))
	}
	in := mkAnd(mkCmp("ge", t, mkIntBig(lo), true), mkCmp("le", t, mkIntBig(hi), true))
	EX.overflowObl = append(EX.overflowObl, in)
}

func symIntBinop(op token.Token, x, y value) value {
	// shifts: y may have a different kind
	if op == token.SHL || op == token.SHR {
		a, k := intTerm(x)
		b, kb := intTerm(y)
		if intModeOn() {
			if !b.isConst() {
				panic(unsupported{"symbolic shift count in int mode"})
			}
			n := uint(b.ival.Uint64())
			p := mkIntBig(new(big.Int).Lsh(big.NewInt(1), n))
			if op == token.SHL {
				r := mkIntArith("mul", a, p)
				rangeObligation(r, k)
				return mkSymInt(r, k)
			}
			panic(unsupported{"right shift in int mode"})
		}
		w, signed := kindWidth(k)
		_, sb := kindWidth(kb)
		b = mkResize(b, w, sb)
		if op == token.SHL {
			return mkSymInt(mkArith("shl", a, b, signed), k)
		}
		return mkSymInt(mkArith("shr", a, b, signed), k)
	}
	a, k := intTerm(x)
	b, _ := intTerm(y)
	_, signed := kindWidth(k)
	var o string
	switch op {
	case token.ADD:
		o = "add"
	case token.SUB:
		o = "sub"
	case token.MUL:
		o = "mul"
	case token.QUO:
		o = "div"
	case token.REM:
		o = "rem"
	case token.AND:
		o = "and"
	case token.OR:
		o = "or"
	case token.XOR:
		o = "xor"
	case token.AND_NOT:
		return mkSymInt(mkArith("and", a, mkBVNot(b), signed), k)
	case token.EQL:
		return mkSymBool(mkEq(a, b))
	case token.NEQ:
		return mkSymBool(mkNot(mkEq(a, b)))
	case token.LSS:
		return mkSymBool(mkCmp("lt", a, b, signed))
	case token.LEQ:
		return mkSymBool(mkCmp("le", a, b, signed))
	case token.GTR:
		return mkSymBool(mkCmp("gt", a, b, signed))
	case token.GEQ:
		return mkSymBool(mkCmp("ge", a, b, signed))
	default:
		panic(unsupported{"symbolic int op " + op.String()})
	}
	if o == "div" || o == "rem" {
		// division by zero is a Go run-time panic
		zero := mkEq(b, zeroLike(b))
		if EX.decide(zero) {
			panic(targetRuntimeError("integer divide by zero"))
		}
	}
	r := mkArith(o, a, b, signed)
	rangeObligation(r, k)
	return mkSymInt(r, k)
}

func zeroLike(t *Term) *Term {
	if t.sort.k == sInt {
		return mkInt(0)
	}
	return mkBV(0, t.sort.w)
}

func symFloatBinop(op token.Token, x, y value) value {
	a, b := floatTerm(x), floatTerm(y)
	switch op {
	case token.ADD:
		return mkSymF64(mkFPArith("add", a, b))
	case token.SUB:
		return mkSymF64(mkFPArith("sub", a, b))
	case token.MUL:
		return mkSymF64(mkFPArith("mul", a, b))
	case token.QUO:
		return mkSymF64(mkFPArith("div", a, b))
	case token.EQL:
		return mkSymBool(mkEq(a, b))
	case token.NEQ:
		return mkSymBool(mkNot(mkEq(a, b)))
	case token.LSS:
		return mkSymBool(mkCmp("lt", a, b, true))
	case token.LEQ:
		return mkSymBool(mkCmp("le", a, b, true))
	case token.GTR:
		return mkSymBool(mkCmp("gt", a, b, true))
	case token.GEQ:
		return mkSymBool(mkCmp("ge", a, b, true))
	}
	panic(unsupported{"symbolic float op " + op.String()})
}

func symBoolBinop(op token.Token, x, y value) value {
	a, b := boolTerm(x), boolTerm(y)
	switch op {
	case token.EQL:
		return mkSymBool(mkEq(a, b))
	case token.NEQ:
		return mkSymBool(mkNot(mkEq(a, b)))
	case token.AND:
		return mkSymBool(mkAnd(a, b))
	case token.OR:
		return mkSymBool(mkOr(a, b))
	}
	panic(unsupported{"symbolic bool op " + op.String()})
}

// and2 / or2 / not1 on bool-or-symBool values
func and2(a, b value) value { return mkSymBool(mkAnd(boolTerm(a), boolTerm(b))) }
func or2(a, b value) value  { return mkSymBool(mkOr(boolTerm(a), boolTerm(b))) }
func not1(a value) value    { return mkSymBool(mkNot(boolTerm(a))) }

// concretizeBool forks on a symbolic bool.
func concretizeBool(v value) bool {
	switch x := v.(type) {
	case bool:
		return x
	case symBool:
		return EX.decide(x.t)
	}
	panic(unsupported{fmt.Sprintf("concretizeBool %T", v)})
}

// concretizeInt forks a symbolic integer over the feasible values in [lo,hi].
func concretizeInt(v value, lo, hi int64) int64 {
	s, ok := v.(symInt)
	if !ok {
		return asInt64(v)
	}
	for c := lo; c < hi; c++ {
		var ct *Term
		if s.t.sort.k == sInt {
			ct = mkInt(c)
		} else {
			ct = mkBVBig(big.NewInt(c), s.t.sort.w)
		}
		if EX.decide(mkEq(s.t, ct)) {
			return c
		}
	}
	var ct *Term
	if s.t.sort.k == sInt {
		ct = mkInt(hi)
	} else {
		ct = mkBVBig(big.NewInt(hi), s.t.sort.w)
	}
	EX.assume(mkEq(s.t, ct), "concretizeInt upper bound")
	return hi
}

// ---------------------------------------------------------------- strings

var (
	strMu    sync.Mutex
	strIDs   = map[string]int64{"": 0}
	strByID  = map[int64]string{0: ""}
	strOrder = []string{""}
)

func strID(s string) int64 {
	strMu.Lock()
	defer strMu.Unlock()
	if id, ok := strIDs[s]; ok {
		return id
	}
	id := int64(len(strIDs))
	strIDs[s] = id
	strByID[id] = s
	strOrder = append(strOrder, s)
	return id
}

func strForID(id int64) string {
	strMu.Lock()
	defer strMu.Unlock()
	if s, ok := strByID[id]; ok {
		return s
	}
	return "§" + strconv.FormatInt(id, 10)
}

func strTerm(v value) *Term {
	switch x := v.(type) {
	case symStr:
		return x.id
	case string:
		return mkInt(strID(x))
	}
	panic(unsupported{fmt.Sprintf("strTerm of %T", v)})
}

func strEq(x, y value) value {
	_, rx := x.(rope)
	_, ry := y.(rope)
	if rx || ry {
		return ropeEq(ropeOf(x), ropeOf(y))
	}
	return mkSymBool(mkEq(strTerm(x), strTerm(y)))
}

func symStrLen(s symStr) value {
	if s.dom != nil {
		var t *Term = mkBV(0, 64)
		for _, d := range s.dom {
			t = mkIte(mkEq(s.id, mkInt(strID(d))), mkBV(uint64(len(d)), 64), t)
		}
		return mkSymInt(t, types.Int)
	}
	EX.useStrLen()
	return mkSymInt(mkIte(mkEq(s.id, mkInt(0)), mkBV(0, 64), mkApp("str_len", bvSort(64), s.id)), types.Int)
}

func (e *Explorer) useStrLen() {
	if e.strLenUsed {
		return
	}
	e.strLenUsed = true
	e.strLenAxioms = 0
	e.syncStrLenAxioms()
}

func (e *Explorer) syncStrLenAxioms() {
	if !e.strLenUsed {
		return
	}
	strMu.Lock()
	n := len(strOrder)
	lits := append([]string{}, strOrder[e.strLenAxioms:n]...)
	base := e.strLenAxioms
	strMu.Unlock()
	for i, s := range lits {
		e.sol.send(fmt.Sprintf("(assert (= (str_len %d) (_ bv%d 64)))\n", base+i, len(s)))
	}
	e.strLenAxioms = n
}

// concretizeStr forks a symbolic string over its domain (only for bounded domains).
func concretizeStr(v value) string {
	switch x := v.(type) {
	case string:
		return x
	case symStr:
		if x.dom == nil {
			// try the interned literals this id is already known to equal
			panic(unsupported{"concretize string with open domain"})
		}
		for _, d := range x.dom[:len(x.dom)-1] {
			if EX.decide(mkEq(x.id, mkInt(strID(d)))) {
				return d
			}
		}
		last := x.dom[len(x.dom)-1]
		EX.assume(mkEq(x.id, mkInt(strID(last))), "string domain")
		return last
	case rope:
		if s, ok := x.concrete(); ok {
			return s
		}
	}
	panic(unsupported{fmt.Sprintf("concretizeStr %T", v)})
}

// ---------------------------------------------------------------- generic binop entry

// symBinop is called by binop when an operand is symbolic.
func symBinop(op token.Token, t types.Type, x, y value) value {
	switch x.(type) {
	case symBool:
		return symBoolBinop(op, x, y)
	case symInt:
		return symIntBinop(op, x, y)
	case symF64:
		return symFloatBinop(op, x, y)
	case symStr, rope:
		return symStrBinop(op, x, y)
	}
	switch y.(type) {
	case symBool:
		return symBoolBinop(op, x, y)
	case symInt:
		return symIntBinop(op, x, y)
	case symF64:
		return symFloatBinop(op, x, y)
	case symStr, rope:
		return symStrBinop(op, x, y)
	}
	panic(unsupported{fmt.Sprintf("symBinop %T %s %T", x, op, y)})
}

func symStrBinop(op token.Token, x, y value) value {
	switch op {
	case token.EQL:
		return strEq(x, y)
	case token.NEQ:
		return not1(strEq(x, y))
	case token.ADD:
		return ropeCat(ropeOf(x), ropeOf(y)).simplify()
	}
	// ordering etc.: concretize when possible
	xs, ys := concretizeStr(x), concretizeStr(y)
	return binop(op, types.Typ[types.String], xs, ys)
}

// symConv converts symbolic scalars between basic types.
func symConv(tDst, tSrc types.Type, x value) value {
	kd, okd := basicKindOf(tDst)
	switch s := x.(type) {
	case symBool:
		return s
	case symStr, rope:
		if okd && kd == types.String {
			return x
		}
		if sl, ok := tDst.Underlying().(*types.Slice); ok {
			if b, ok := sl.Elem().Underlying().(*types.Basic); ok && b.Kind() == types.Uint8 {
				// []byte(symbolic string): an opaque byte string carrying the rope
				return opaqueBytes(ropeOf(x))
			}
		}
		panic(unsupported{fmt.Sprintf("conversion of symbolic string to %s", tDst)})
	case symInt:
		if !okd {
			panic(unsupported{fmt.Sprintf("conversion of symbolic int to %s", tDst)})
		}
		switch kd {
		case types.Float64, types.Float32:
			if s.t.sort.k == sInt {
				panic(unsupported{"int->float in int mode"})
			}
			_, signed := kindWidth(s.k)
			r := mkSBVToFP(s.t, signed)
			if kd == types.Float32 {
				panic(unsupported{"float32"})
			}
			return mkSymF64(r)
		case types.String:
			panic(unsupported{"string(rune) of symbolic int"})
		}
		w, _ := kindWidth(kd)
		_, ssigned := kindWidth(s.k)
		if s.t.sort.k == sInt {
			rangeObligation(s.t, kd)
			return symInt{s.t, kd}
		}
		return mkSymInt(mkResize(s.t, w, ssigned), kd)
	case symF64:
		if !okd {
			panic(unsupported{fmt.Sprintf("conversion of symbolic float to %s", tDst)})
		}
		switch kd {
		case types.Float64:
			return s
		case types.Float32:
			panic(unsupported{"float32"})
		}
		w, signed := kindWidth(kd)
		if signed {
			return mkSymInt(mkFPToSBV(s.t, w), kd)
		}
		return mkSymInt(mkFPToUBV(s.t, w), kd)
	}
	panic(unsupported{fmt.Sprintf("symConv %T", x)})
}

func symUnop(op token.Token, x value) value {
	switch s := x.(type) {
	case symBool:
		if op == token.NOT {
			return mkSymBool(mkNot(s.t))
		}
	case symInt:
		switch op {
		case token.SUB:
			r := mkNeg(s.t)
			rangeObligation(r, s.k)
			return mkSymInt(r, s.k)
		case token.XOR:
			return mkSymInt(mkBVNot(s.t), s.k)
		}
	case symF64:
		if op == token.SUB {
			return mkSymF64(mkNeg(s.t))
		}
	}
	panic(unsupported{fmt.Sprintf("symUnop %s %T", op, x)})
}

// targetRuntimeError builds the panic value for a Go run-time error in the target.
type runtimeErr struct{ msg string }

func (r runtimeErr) Error() string   { return "runtime error: " + r.msg }
func (r runtimeErr) RuntimeError()   {}
func targetRuntimeError(msg string) runtimeErr { return runtimeErr{msg} }

// indexIn concretizes an index and checks bounds like Go does.
func indexIn(idx value, n int) int64 {
	var i int64
	if s, ok := idx.(symInt); ok {
		// out of range feasible?
		_, signed := kindWidth(s.k)
		var oob *Term
		if s.t.sort.k == sInt {
			oob = mkOr(mkCmp("lt", s.t, mkInt(0), true), mkCmp("ge", s.t, mkInt(int64(n)), true))
		} else {
			oob = mkCmp("ge", s.t, mkBV(uint64(n), s.t.sort.w), false)
			_ = signed
		}
		if EX.decide(oob) {
			panic(targetRuntimeError(fmt.Sprintf("index out of range [symbolic] with length %d", n)))
		}
		i = concretizeInt(s, 0, int64(n)-1)
	} else {
		i = asInt64(idx)
	}
	if i < 0 || i >= int64(n) {
		panic(targetRuntimeError(fmt.Sprintf("index out of range [%d] with length %d", i, n)))
	}
	return i
}
