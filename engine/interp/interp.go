// Copyright 2013 The Go Authors. All rights reserved.
// Use of this source code is governed by a BSD-style
// license that can be found in the LICENSE file.

// Package ssa/interp defines an interpreter for the SSA
// representation of Go programs.
//
// This interpreter is provided as an adjunct for testing the SSA
// construction algorithm.  Its purpose is to provide a minimal
// metacircular implementation of the dynamic semantics of each SSA
// instruction.  It is not, and will never be, a production-quality Go
// interpreter.
//
// The following is a partial list of Go features that are currently
// unsupported or incomplete in the interpreter.
//
// * Unsafe operations, including all uses of unsafe.Pointer, are
// impossible to support given the "boxed" value representation we
// have chosen.
//
// * The reflect package is only partially implemented.
//
// * The "testing" package is no longer supported because it
// depends on low-level details that change too often.
//
// * "sync/atomic" operations are not atomic due to the "boxed" value
// representation: it is not possible to read, modify and write an
// interface value atomically. As a consequence, Mutexes are currently
// broken.
//
// * recover is only partially implemented.  Also, the interpreter
// makes no attempt to distinguish target panics from interpreter
// crashes.
//
// * the sizes of the int, uint and uintptr types in the target
// program are assumed to be the same as those of the interpreter
// itself.
//
// * all values occupy space, even those of types defined by the spec
// to have zero size, e.g. struct{}.  This can cause asymptotic
// performance degradation.
//
// * os.Exit is implemented using panic, causing deferred functions to
// run.
package interp

import (
	"path/filepath"
	"strings"
	"fmt"
	"go/token"
	"go/types"
	"log"
	"os"
	"runtime"
	"slices"
	_ "unsafe"

	"golang.org/x/tools/go/ssa"
)

type continuation int

const (
	kNext continuation = iota
	kReturn
	kJump
)

// Mode is a bitmask of options affecting the interpreter.
type Mode uint

const (
	DisableRecover Mode = 1 << iota // Disable recover() in target programs; show interpreter crash instead.
	EnableTracing                   // Print a trace of all instructions as they are interpreted.
)

type methodSet map[string]*ssa.Function

// State shared between all interpreted goroutines.
type interpreter struct {
	osArgs             []value                // the value of os.Args
	prog               *ssa.Program           // the SSA program
	globals            map[*ssa.Global]*value // addresses of global variables (immutable)
	mode               Mode                   // interpreter options
	reflectPackage     *ssa.Package           // the fake reflect package
	errorMethods       methodSet              // the method set of reflect.error, which implements the error interface.
	rtypeMethods       methodSet              // the method set of rtype, which implements the reflect.Type interface.
	runtimeErrorString types.Type             // the runtime.errorString type
	sizes              types.Sizes            // the effective type-sizing function
	goroutines         int32                  // atomically updated
}

type deferred struct {
	fn    value
	args  []value
	instr *ssa.Defer
	tail  *deferred
}

type frame struct {
	i                *interpreter
	caller           *frame
	fn               *ssa.Function
	block, prevBlock *ssa.BasicBlock
	env              map[ssa.Value]value // dynamic values of SSA variables
	locals           []value
	defers           *deferred
	result           value
	panicking        bool
	panic            interface{}
	phitemps         []value // temporaries for parallel phi assignment
	phiOverride      map[*ssa.Phi]value
	cur              ssa.Instruction
}

func (fr *frame) get(key ssa.Value) value {
	switch key := key.(type) {
	case nil:
		// Hack; simplifies handling of optional attributes
		// such as ssa.Slice.{Low,High}.
		return nil
	case *ssa.Function, *ssa.Builtin:
		return key
	case *ssa.Const:
		return constValue(key)
	case *ssa.Global:
		if r, ok := fr.i.globals[key]; ok {
			return r
		}
	}
	if r, ok := fr.env[key]; ok {
		return r
	}
	panic(fmt.Sprintf("get: no value for %T: %v", key, key.Name()))
}

// runDefer runs a deferred call d.
// It always returns normally, but may set or clear fr.panic.
func (fr *frame) runDefer(d *deferred) {
	if fr.i.mode&EnableTracing != 0 {
		fmt.Fprintf(os.Stderr, "%s: invoking deferred function call\n",
			fr.i.prog.Fset.Position(d.instr.Pos()))
	}
	var ok bool
	defer func() {
		if !ok {
			// Deferred call created a new state of panic.
			fr.panicking = true
			fr.panic = recover()
		}
	}()
	call(fr.i, fr, d.instr.Pos(), d.fn, d.args)
	ok = true
}

// runDefers executes fr's deferred function calls in LIFO order.
//
// On entry, fr.panicking indicates a state of panic; if
// true, fr.panic contains the panic value.
//
// On completion, if a deferred call started a panic, or if no
// deferred call recovered from a previous state of panic, then
// runDefers itself panics after the last deferred call has run.
//
// If there was no initial state of panic, or it was recovered from,
// runDefers returns normally.
func (fr *frame) runDefers() {
	for d := fr.defers; d != nil; d = d.tail {
		fr.runDefer(d)
	}
	fr.defers = nil
	if fr.panicking {
		panic(fr.panic) // new panic, or still panicking
	}
}

// lookupMethod returns the method set for type typ, which may be one
// of the interpreter's fake types.
func lookupMethod(i *interpreter, typ types.Type, meth *types.Func) *ssa.Function {
	switch typ {
	case rtypeType:
		return i.rtypeMethods[meth.Id()]
	case errorType:
		return i.errorMethods[meth.Id()]
	}
	return i.prog.LookupMethod(typ, meth.Pkg(), meth.Name())
}

// visitInstr interprets a single ssa.Instruction within the activation
// record frame.  It returns a continuation value indicating where to
// read the next instruction from.
func visitInstr(fr *frame, instr ssa.Instruction) continuation {
	EX.step()
	EX.curFrame = fr
	switch instr := instr.(type) {
	case *ssa.DebugRef:
		// no-op

	case *ssa.UnOp:
		x := fr.get(instr.X)
		switch {
		case instr.Op == token.MUL:
			a := deref(fr, x, "load")
			if RD.on {
				if al, ok := instr.X.(*ssa.Alloc); !ok || al.Heap {
					RD.raceMem(fr, mustDeref(instr.X.Type()), a, false, instr.X)
				}
			}
			fr.env[instr] = load(mustDeref(instr.X.Type()), a)
		case isSymScalar(x):
			fr.env[instr] = symUnop(instr.Op, x)
		default:
			fr.env[instr] = unop(instr, x)
		}

	case *ssa.BinOp:
		fr.env[instr] = binop(instr.Op, instr.X.Type(), fr.get(instr.X), fr.get(instr.Y))

	case *ssa.Call:
		fn, args := prepareCall(fr, &instr.Call)
		fr.env[instr] = call(fr.i, fr, instr.Pos(), fn, args)

	case *ssa.ChangeInterface:
		fr.env[instr] = fr.get(instr.X)

	case *ssa.ChangeType:
		fr.env[instr] = fr.get(instr.X) // (can't fail)

	case *ssa.Convert:
		fr.env[instr] = conv(instr.Type(), instr.X.Type(), fr.get(instr.X))

	case *ssa.SliceToArrayPointer:
		fr.env[instr] = sliceToArrayPointer(instr.Type(), instr.X.Type(), fr.get(instr.X))

	case *ssa.MakeInterface:
		fr.env[instr] = iface{t: instr.X.Type(), v: fr.get(instr.X)}

	case *ssa.Extract:
		fr.env[instr] = fr.get(instr.Tuple).(tuple)[instr.Index]

	case *ssa.Slice:
		fr.env[instr] = slice(fr.get(instr.X), fr.get(instr.Low), fr.get(instr.High), fr.get(instr.Max))

	case *ssa.Return:
		switch len(instr.Results) {
		case 0:
		case 1:
			fr.result = fr.get(instr.Results[0])
		default:
			var res []value
			for _, r := range instr.Results {
				res = append(res, fr.get(r))
			}
			fr.result = tuple(res)
		}
		fr.block = nil
		return kReturn

	case *ssa.RunDefers:
		fr.runDefers()

	case *ssa.Panic:
		panic(targetPanic{fr.get(instr.X)})

	case *ssa.Send:
		chanSend(fr.get(instr.Chan), fr.get(instr.X))

	case *ssa.Store:
		a := deref(fr, fr.get(instr.Addr), "store")
		if RD.on {
			if al, ok := instr.Addr.(*ssa.Alloc); !ok || al.Heap {
				RD.raceMem(fr, mustDeref(instr.Addr.Type()), a, true, instr.Addr)
			}
		}
		store(mustDeref(instr.Addr.Type()), a, fr.get(instr.Val))

	case *ssa.If:
		succ := 1
		cv := fr.get(instr.Cond)
		if sb, ok := cv.(symBool); ok && EX.spec == 0 {
			if _, known := EX.lookupKnown(sb.t); !known && tryIfConvert(fr, instr, sb.t) {
				return kJump
			}
		}
		if concretizeBool(cv) {
			succ = 0
		}
		fr.prevBlock, fr.block = fr.block, fr.block.Succs[succ]
		return kJump

	case *ssa.Jump:
		fr.prevBlock, fr.block = fr.block, fr.block.Succs[0]
		return kJump

	case *ssa.Defer:
		fn, args := prepareCall(fr, &instr.Call)
		defers := &fr.defers
		if into := fr.get(instr.DeferStack); into != nil {
			defers = into.(**deferred)
		}
		*defers = &deferred{
			fn:    fn,
			args:  args,
			instr: instr,
			tail:  *defers,
		}

	case *ssa.Go:
		fn, args := prepareCall(fr, &instr.Call)
		SC.spawn(fn, args, stReady, "go")
		SC.yield()

	case *ssa.MakeChan:
		fr.env[instr] = &vchan{cap: int(asInt64(fr.get(instr.Size)))}

	case *ssa.Alloc:
		var addr *value
		if instr.Heap {
			// new
			addr = new(value)
			fr.env[instr] = addr
		} else {
			// local
			addr = fr.env[instr].(*value)
		}
		*addr = zero(mustDeref(instr.Type()))

	case *ssa.MakeSlice:
		if isSymScalar(fr.get(instr.Cap)) || isSymScalar(fr.get(instr.Len)) {
			panic(unsupported{"make([]T, n) with symbolic n"})
		}
		slice := make([]value, asInt64(fr.get(instr.Cap)))
		tElt := instr.Type().Underlying().(*types.Slice).Elem()
		for i := range slice {
			slice[i] = zero(tElt)
		}
		fr.env[instr] = slice[:asInt64(fr.get(instr.Len))]

	case *ssa.MakeMap:
		var reserve int64
		if instr.Reserve != nil {
			reserve = asInt64(fr.get(instr.Reserve))
		}
		if !fitsInt(reserve, fr.i.sizes) {
			panic(fmt.Sprintf("ssa.MakeMap.Reserve value %d does not fit in int", reserve))
		}
		fr.env[instr] = makeMap(instr.Type().Underlying().(*types.Map).Key(), reserve)

	case *ssa.Range:
		if RD.on {
			if m, ok := fr.get(instr.X).(*omap); ok {
				RD.raceObj(fr, m, false, instr.X)
			}
		}
		fr.env[instr] = rangeIter(fr.get(instr.X), instr.X.Type())

	case *ssa.Next:
		fr.env[instr] = fr.get(instr.Iter).(iter).next()

	case *ssa.FieldAddr:
		fr.env[instr] = &(*deref(fr, fr.get(instr.X), "field "+fieldName(instr))).(structure)[instr.Field]

	case *ssa.Field:
		fr.env[instr] = fr.get(instr.X).(structure)[instr.Field]

	case *ssa.IndexAddr:
		x := fr.get(instr.X)
		idx := fr.get(instr.Index)
		switch x := x.(type) {
		case []value:
			fr.env[instr] = &x[indexIn(idx, len(x))]
		case *value, optPtr: // *array
			a := (*deref(fr, x, "index")).(array)
			fr.env[instr] = &a[indexIn(idx, len(a))]
		default:
			panic(unsupported{fmt.Sprintf("unexpected x type in IndexAddr: %T", x)})
		}

	case *ssa.Index:
		x := fr.get(instr.X)
		idx := fr.get(instr.Index)

		switch x := x.(type) {
		case array:
			fr.env[instr] = x[indexIn(idx, len(x))]
		case string:
			fr.env[instr] = x[indexIn(idx, len(x))]
		default:
			panic(unsupported{fmt.Sprintf("unexpected x type in Index: %T", x)})
		}

	case *ssa.Lookup:
		if RD.on {
			if m, ok := fr.get(instr.X).(*omap); ok {
				RD.raceObj(fr, m, false, instr.X)
			}
		}
		fr.env[instr] = lookup(instr, fr.get(instr.X), fr.get(instr.Index))

	case *ssa.MapUpdate:
		m := fr.get(instr.Map)
		key := fr.get(instr.Key)
		v := fr.get(instr.Value)
		switch m := m.(type) {
		case *omap:
			if RD.on {
				RD.raceObj(fr, m, true, instr.Map)
			}
			m.insert(key, v)
		default:
			panic(fmt.Sprintf("illegal map type: %T", m))
		}

	case *ssa.TypeAssert:
		fr.env[instr] = typeAssert(fr.i, instr, fr.get(instr.X).(iface))

	case *ssa.MakeClosure:
		var bindings []value
		for _, binding := range instr.Bindings {
			bindings = append(bindings, fr.get(binding))
		}
		fr.env[instr] = &closure{instr.Fn.(*ssa.Function), bindings}

	case *ssa.Phi:
		log.Fatal("unreachable") // phis are processed at block entry

	case *ssa.Select:
		fr.env[instr] = chanSelect(fr, instr)

	default:
		panic(fmt.Sprintf("unexpected instruction: %T", instr))
	}

	// if val, ok := instr.(ssa.Value); ok {
	// 	fmt.Println(toString(fr.env[val])) // debugging
	// }

	return kNext
}

// prepareCall determines the function value and argument values for a
// function call in a Call, Go or Defer instruction, performing
// interface method lookup if needed.
func prepareCall(fr *frame, call *ssa.CallCommon) (fn value, args []value) {
	v := fr.get(call.Value)
	if call.Method == nil {
		// Function call.
		fn = v
	} else {
		// Interface method invocation.
		recv := v.(iface)
		if recv.t == nil {
			panic(targetNilDeref(fr, "method "+call.Method.Name()+" invoked on nil interface"))
		}
		if f := lookupMethod(fr.i, recv.t, call.Method); f == nil {
			// Unreachable in well-typed programs.
			panic(fmt.Sprintf("method set for dynamic type %v does not contain %s", recv.t, call.Method))
		} else {
			fn = f
		}
		args = append(args, recv.v)
	}
	for _, arg := range call.Args {
		args = append(args, fr.get(arg))
	}
	return
}

// call interprets a call to a function (function, builtin or closure)
// fn with arguments args, returning its result.
// callpos is the position of the callsite.
func call(i *interpreter, caller *frame, callpos token.Pos, fn value, args []value) value {
	switch fn := fn.(type) {
	case *ssa.Function:
		if fn == nil {
			panic("call of nil function") // nil of func type
		}
		return callSSA(i, caller, callpos, fn, args, nil)
	case *closure:
		return callSSA(i, caller, callpos, fn.Fn, args, fn.Env)
	case *ssa.Builtin:
		return callBuiltin(caller, callpos, fn, args)
	}
	panic(fmt.Sprintf("cannot call %T", fn))
}

func loc(fset *token.FileSet, pos token.Pos) string {
	if pos == token.NoPos {
		return ""
	}
	return " at " + fset.Position(pos).String()
}

// callSSA interprets a call to function fn with arguments args,
// and lexical environment env, returning its result.
// callpos is the position of the callsite.
func callSSA(i *interpreter, caller *frame, callpos token.Pos, fn *ssa.Function, args []value, env []value) value {
	if i.mode&EnableTracing != 0 {
		fset := fn.Prog.Fset
		// TODO(adonovan): fix: loc() lies for external functions.
		fmt.Fprintf(os.Stderr, "Entering %s%s.\n", fn, loc(fset, fn.Pos()))
		suffix := ""
		if caller != nil {
			suffix = ", resuming " + caller.fn.String() + loc(fset, callpos)
		}
		defer fmt.Fprintf(os.Stderr, "Leaving %s%s.\n", fn, suffix)
	}
	fr := &frame{
		i:      i,
		caller: caller, // for panic/recover
		fn:     fn,
	}
	if fn.Parent() == nil {
		name := fn.String()
		if ext := externals[name]; ext != nil {
			return ext(fr, args)
		}
		if fn.Name() == "init" && fn.Signature.Recv() == nil && pkgPathOf(fn) == rtPkg {
			return nil
		}
		if rn, ok := rtName(fn); ok {
			if rf := rtFuncs[rn]; rf != nil {
				return rf(fr, args)
			}
			panic(unsupported{"verifrt function without engine implementation: " + rn})
		}
		pp := pkgPathOf(fn)
		if fn.Name() == "init" && fn.Signature.Recv() == nil && (!Whitelist[pp] || NoInit[pp]) {
			return nil // package initialisers of environment packages are not run
		}
		if pp != "" && !Whitelist[pp] && !FuncWhitelist(fn) {
			panic(unsupported{"call into package that is neither interpreted nor stubbed: " + name})
		}
		if fn.Blocks == nil {
			panic(unsupported{"no code for function: " + name})
		}
		if Subject[pp] {
			EX.Funcs[name]++
		}
	}

	// generic function body?
	if fn.TypeParams().Len() > 0 && len(fn.TypeArgs()) == 0 {
		panic("interp requires ssa.BuilderMode to include InstantiateGenerics to execute generics")
	}

	fr.env = make(map[ssa.Value]value)
	fr.block = fn.Blocks[0]
	fr.locals = make([]value, len(fn.Locals))
	for i, l := range fn.Locals {
		fr.locals[i] = zero(mustDeref(l.Type()))
		fr.env[l] = &fr.locals[i]
	}
	for i, p := range fn.Params {
		fr.env[p] = args[i]
	}
	for i, fv := range fn.FreeVars {
		fr.env[fv] = env[i]
	}
	for fr.block != nil {
		runFrame(fr)
	}
	// Destroy the locals to avoid accidental use after return.
	for i := range fn.Locals {
		fr.locals[i] = bad{}
	}
	return fr.result
}

// runFrame executes SSA instructions starting at fr.block and
// continuing until a return, a panic, or a recovered panic.
//
// After a panic, runFrame panics.
//
// After a normal return, fr.result contains the result of the call
// and fr.block is nil.
//
// A recovered panic in a function without named return parameters
// (NRPs) becomes a normal return of the zero value of the function's
// result type.
//
// After a recovered panic in a function with NRPs, fr.result is
// undefined and fr.block contains the block at which to resume
// control.
func runFrame(fr *frame) {
	defer func() {
		if fr.block == nil {
			return // normal return
		}
		if fr.i.mode&DisableRecover != 0 {
			return // let interpreter crash
		}
		fr.panicking = true
		fr.panic = recover()
		if EX.panicTrace == "" && EX.spec == 0 {
			EX.panicTrace = interpStack(fr)
			EX.panicFn = fr.fn.String()
			if tp, ok := fr.panic.(targetPanic); ok {
				func() {
					defer func() { recover() }()
					EX.panicText = fmt.Sprint(fr.i.fmtArg(fr, tp.v))
				}()
			}
		}
		fr.runDefers()
		fr.block = fr.fn.Recover
	}()

	for {
		if fr.i.mode&EnableTracing != 0 {
			fmt.Fprintf(os.Stderr, ".%s:\n", fr.block)
		}

		nonPhis := executePhis(fr)
		for _, instr := range nonPhis {
			if fr.i.mode&EnableTracing != 0 {
				if v, ok := instr.(ssa.Value); ok {
					fmt.Fprintln(os.Stderr, "\t", v.Name(), "=", instr)
				} else {
					fmt.Fprintln(os.Stderr, "\t", instr)
				}
			}
			fr.cur = instr
			if visitInstr(fr, instr) == kReturn {
				return
			}
			// Inv: kNext (continue) or kJump (last instr)
		}
	}
}

// executePhis executes the phi-nodes at the start of the current
// block and returns the non-phi instructions.
func executePhis(fr *frame) []ssa.Instruction {
	firstNonPhi := -1
	for i, instr := range fr.block.Instrs {
		if _, ok := instr.(*ssa.Phi); !ok {
			firstNonPhi = i
			break
		}
	}
	// Inv: 0 <= firstNonPhi; every block contains a non-phi.

	nonPhis := fr.block.Instrs[firstNonPhi:]
	if firstNonPhi == 0 {
		fr.phiOverride = nil
	}
	if firstNonPhi > 0 {
		phis := fr.block.Instrs[:firstNonPhi]
		// Execute parallel assignment of phis.
		//
		// See "the swap problem" in Briggs et al's "Practical Improvements
		// to the Construction and Destruction of SSA Form" for discussion.
		predIndex := slices.Index(fr.block.Preds, fr.prevBlock)
		fr.phitemps = fr.phitemps[:0]
		for _, phi := range phis {
			phi := phi.(*ssa.Phi)
			if fr.phiOverride != nil {
				fr.phitemps = append(fr.phitemps, fr.phiOverride[phi])
				continue
			}
			fr.phitemps = append(fr.phitemps, fr.get(phi.Edges[predIndex]))
		}
		fr.phiOverride = nil
		for i, phi := range phis {
			fr.env[phi.(*ssa.Phi)] = fr.phitemps[i]
		}
	}
	return nonPhis
}

// doRecover implements the recover() built-in.
func doRecover(caller *frame) value {
	// recover() must be exactly one level beneath the deferred
	// function (two levels beneath the panicking function) to
	// have any effect.  Thus we ignore both "defer recover()" and
	// "defer f() -> g() -> recover()".
	if caller.i.mode&DisableRecover == 0 &&
		caller != nil && !caller.panicking &&
		caller.caller != nil && caller.caller.panicking {
		caller.caller.panicking = false
		p := caller.caller.panic
		caller.caller.panic = nil

		// TODO(adonovan): support runtime.Goexit.
		switch p := p.(type) {
		case targetPanic:
			// The target program explicitly called panic().
			return p.v
		case runtime.Error:
			// The interpreter encountered a runtime error.
			return iface{caller.i.runtimeErrorString, p.Error()}
		case string:
			// The interpreter explicitly called panic().
			return iface{caller.i.runtimeErrorString, p}
		default:
			panic(fmt.Sprintf("unexpected panic type %T in target call to recover()", p))
		}
	}
	return iface{}
}

// Interpret interprets the Go program whose main package is mainpkg.
// mode specifies various interpreter options.  filename and args are
// the initial values of os.Args for the target program.  sizes is the
// effective type-sizing function for this program.
//
// Interpret returns the exit code of the program: 2 for panic (like
// gc does), or the argument to os.Exit for normal termination.
//
// The SSA program must include the "runtime" package.
//
// Type parameterized functions must have been built with
// InstantiateGenerics in the ssa.BuilderMode to be interpreted.
func Interpret(mainpkg *ssa.Package, mode Mode, sizes types.Sizes, filename string, args []string) (exitCode int) {
	i := &interpreter{
		prog:       mainpkg.Prog,
		globals:    make(map[*ssa.Global]*value),
		mode:       mode,
		sizes:      sizes,
		goroutines: 1,
	}
	runtimePkg := i.prog.ImportedPackage("runtime")
	if runtimePkg == nil {
		panic("ssa.Program doesn't include runtime package")
	}
	i.runtimeErrorString = runtimePkg.Type("errorString").Object().Type()

	initReflect(i)

	i.osArgs = append(i.osArgs, filename)
	for _, arg := range args {
		i.osArgs = append(i.osArgs, arg)
	}

	for _, pkg := range i.prog.AllPackages() {
		// Initialize global storage.
		for _, m := range pkg.Members {
			switch v := m.(type) {
			case *ssa.Global:
				cell := zero(mustDeref(v.Type()))
				i.globals[v] = &cell
			}
		}
	}

	// Top-level error handler.
	exitCode = 2
	defer func() {
		if exitCode != 2 || i.mode&DisableRecover != 0 {
			return
		}
		switch p := recover().(type) {
		case exitPanic:
			exitCode = int(p)
			return
		case targetPanic:
			fmt.Fprintln(os.Stderr, "panic:", toString(p.v))
		case runtime.Error:
			fmt.Fprintln(os.Stderr, "panic:", p.Error())
		case string:
			fmt.Fprintln(os.Stderr, "panic:", p)
		default:
			fmt.Fprintf(os.Stderr, "panic: unexpected type: %T: %v\n", p, p)
		}

		// TODO(adonovan): dump panicking interpreter goroutine?
		// buf := make([]byte, 0x10000)
		// runtime.Stack(buf, false)
		// fmt.Fprintln(os.Stderr, string(buf))
		// (Or dump panicking target goroutine?)
	}()

	// Run!
	call(i, nil, token.NoPos, mainpkg.Func("init"), nil)
	if mainFn := mainpkg.Func("main"); mainFn != nil {
		call(i, nil, token.NoPos, mainFn, nil)
		exitCode = 0
	} else {
		fmt.Fprintln(os.Stderr, "No main function.")
		exitCode = 1
	}
	return
}

// Subject lists the packages whose functions are reported as "encoded".
var Subject = map[string]bool{}

func fieldName(instr *ssa.FieldAddr) string {
	if st, ok := mustDeref(instr.X.Type()).Underlying().(*types.Struct); ok {
		return st.Field(instr.Field).Name()
	}
	return "?"
}

// interpStack renders the interpreted call stack (for diagnostics and panic sites).
func interpStack(fr *frame) string {
	var sb strings.Builder
	for f := fr; f != nil; f = f.caller {
		pos := ""
		if f.cur != nil {
			p := f.i.prog.Fset.Position(f.cur.Pos())
			if p.IsValid() {
				pos = fmt.Sprintf(" %s:%d", filepath.Base(p.Filename), p.Line)
			}
			pos += "  [" + f.cur.String() + "]"
		}
		fmt.Fprintf(&sb, "  %s%s\n", f.fn.String(), pos)
	}
	return sb.String()
}
