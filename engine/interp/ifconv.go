package interp

// If-conversion: when a branch on an undetermined symbolic condition leads
// into a small region of side-effect-free blocks that re-converges at one
// join block, the region is executed speculatively under each guard and the
// join's phi nodes become ite-terms. No fork, no path-condition growth.
// Anything that cannot be merged (a store, a call, a possible panic, a
// non-scalar phi with different values) aborts the conversion and the
// branch is decided by forking as usual. This is an optimisation only: it
// never changes which inputs are covered.

import (
	"go/token"
	"go/types"

	"golang.org/x/tools/go/ssa"
)

type specAbort struct{ why string }

type specEdge struct {
	pred  *ssa.BasicBlock
	guard *Term
}

const specMaxBlocks = 12

func pureInstr(instr ssa.Instruction) bool {
	switch in := instr.(type) {
	case *ssa.DebugRef, *ssa.BinOp, *ssa.Convert, *ssa.ChangeType, *ssa.ChangeInterface, *ssa.MakeInterface,
		*ssa.Field, *ssa.FieldAddr, *ssa.IndexAddr, *ssa.Index, *ssa.Extract, *ssa.Lookup, *ssa.Slice, *ssa.MakeClosure:
		return true
	case *ssa.UnOp:
		return in.Op != token.ARROW
	case *ssa.TypeAssert:
		return in.CommaOk
	case *ssa.Call:
		if b, ok := in.Call.Value.(*ssa.Builtin); ok {
			switch b.Name() {
			case "len", "cap", "min", "max":
				return true
			}
		}
		return false
	}
	return false
}

// specRegion executes block b under guard g and returns the edges that reach join.
func specRegion(fr *frame, b *ssa.BasicBlock, from *ssa.BasicBlock, g *Term, join *ssa.BasicBlock, budget *int, edges *[]specEdge) {
	if b == join {
		*edges = append(*edges, specEdge{from, g})
		return
	}
	*budget--
	if *budget < 0 || len(b.Preds) != 1 {
		panic(specAbort{"region shape"})
	}
	n := len(b.Instrs)
	undo := EX.pushAssume(g)
	defer EX.popAssume(undo)
	for _, instr := range b.Instrs[:n-1] {
		if !pureInstr(instr) {
			panic(specAbort{"impure instruction"})
		}
		if _, ok := instr.(*ssa.Phi); ok {
			panic(specAbort{"phi in arm"})
		}
		visitInstr(fr, instr)
	}
	switch t := b.Instrs[n-1].(type) {
	case *ssa.Jump:
		specRegion(fr, b.Succs[0], b, g, join, budget, edges)
	case *ssa.If:
		c := fr.get(t.Cond)
		switch cv := c.(type) {
		case bool:
			k := 1
			if cv {
				k = 0
			}
			specRegion(fr, b.Succs[k], b, g, join, budget, edges)
		case symBool:
			if v, ok := EX.lookupKnown(cv.t); ok {
				k := 1
				if v {
					k = 0
				}
				specRegion(fr, b.Succs[k], b, g, join, budget, edges)
				return
			}
			specRegion(fr, b.Succs[0], b, mkAnd(g, cv.t), join, budget, edges)
			specRegion(fr, b.Succs[1], b, mkAnd(g, mkNot(cv.t)), join, budget, edges)
		default:
			panic(specAbort{"condition type"})
		}
	default:
		panic(specAbort{"terminator"})
	}
}

// findJoin returns the candidate join block for an If in block b: the nearest
// block reachable from both successors through single-predecessor chains.
func findJoin(b *ssa.BasicBlock) *ssa.BasicBlock {
	reach := func(s *ssa.BasicBlock) []*ssa.BasicBlock {
		// blocks at which a pure region starting at s could end: follow single-pred blocks
		var out []*ssa.BasicBlock
		seen := map[*ssa.BasicBlock]bool{}
		var walk func(x *ssa.BasicBlock, depth int)
		walk = func(x *ssa.BasicBlock, depth int) {
			if seen[x] || depth > specMaxBlocks {
				return
			}
			seen[x] = true
			if len(x.Preds) != 1 || x == s && false {
				out = append(out, x)
				return
			}
			out = append(out, x)
			for _, y := range x.Succs {
				walk(y, depth+1)
			}
		}
		walk(s, 0)
		return out
	}
	r0 := reach(b.Succs[0])
	r1 := reach(b.Succs[1])
	in1 := map[*ssa.BasicBlock]bool{}
	for _, x := range r1 {
		in1[x] = true
	}
	for _, x := range r0 {
		if in1[x] && len(x.Preds) >= 2 {
			return x
		}
	}
	return nil
}

func mergeable(v value) bool {
	switch v.(type) {
	case bool, symBool, symInt, symF64, string, symStr, float64:
		return true
	}
	_, ok := concreteIntKind(v)
	return ok
}

func sameConcrete(a, b value) bool {
	switch x := a.(type) {
	case *value:
		y, ok := b.(*value)
		return ok && x == y
	case bool, string, float64:
		return a == b
	case iface:
		y, ok := b.(iface)
		return ok && x.t == nil && y.t == nil
	case []value:
		y, ok := b.([]value)
		return ok && x == nil && y == nil
	case *omap:
		y, ok := b.(*omap)
		return ok && x == y
	}
	if _, ok := concreteIntKind(a); ok {
		if _, ok := concreteIntKind(b); ok {
			return a == b
		}
	}
	return false
}

func iteValue(t types.Type, g *Term, a, b value) (value, bool) {
	if sameConcrete(a, b) {
		return a, true
	}
	if !mergeable(a) || !mergeable(b) {
		// maybe-nil pointers with the same target
		pa, isPa := a.(optPtr)
		pb, isPb := b.(optPtr)
		if isPa || isPb {
			var ta, tb *value
			var prA, prB *Term
			if isPa {
				ta, prA = pa.p, pa.present
			} else if p, ok := a.(*value); ok {
				ta, prA = p, mkBool(p != nil)
			} else {
				return nil, false
			}
			if isPb {
				tb, prB = pb.p, pb.present
			} else if p, ok := b.(*value); ok {
				tb, prB = p, mkBool(p != nil)
			} else {
				return nil, false
			}
			if ta == nil {
				ta = tb
			}
			if tb == nil {
				tb = ta
			}
			if ta == tb && ta != nil {
				return optPtr{mkIte(g, prA, prB), ta}, true
			}
		}
		return nil, false
	}
	switch a.(type) {
	case bool, symBool:
		return mkSymBool(mkIte(g, boolTerm(a), boolTerm(b))), true
	case float64, symF64:
		return mkSymF64(mkIte(g, floatTerm(a), floatTerm(b))), true
	case string, symStr:
		switch b.(type) {
		case string, symStr:
			var dom []string
			return symStr{id: mkIte(g, strTerm(a), strTerm(b)), dom: dom}, true
		}
		return nil, false
	}
	ta, k := intTerm(a)
	tb, _ := intTerm(b)
	if ta.sort != tb.sort {
		return nil, false
	}
	return mkSymInt(mkIte(g, ta, tb), k), true
}

// tryIfConvert attempts to execute the If at the end of fr.block without forking.
func tryIfConvert(fr *frame, instr *ssa.If, c *Term) bool {
	if EX.noIfConv {
		return false
	}
	b := fr.block
	join := findJoin(b)
	if join == nil {
		return false
	}
	ok := false
	var edges []specEdge
	func() {
		defer func() {
			if p := recover(); p != nil {
				switch p.(type) {
				case specAbort, targetPanic, nilDeref, runtimeErr:
					ok = false
				default:
					if _, isRT := p.(error); isRT {
						ok = false
						return
					}
					panic(p)
				}
			}
		}()
		EX.spec++
		defer func() { EX.spec-- }()
		budget := specMaxBlocks
		specRegion(fr, b.Succs[0], b, c, join, &budget, &edges)
		specRegion(fr, b.Succs[1], b, mkNot(c), join, &budget, &edges)
		ok = true
	}()
	if !ok || len(edges) == 0 {
		return false
	}
	// merge phis of join
	over := map[*ssa.Phi]value{}
	for _, in := range join.Instrs {
		phi, isPhi := in.(*ssa.Phi)
		if !isPhi {
			break
		}
		var merged value
		for i := len(edges) - 1; i >= 0; i-- {
			e := edges[i]
			idx := -1
			for k, p := range join.Preds {
				if p == e.pred {
					idx = k
				}
			}
			if idx < 0 {
				return false
			}
			v := fr.get(phi.Edges[idx])
			if merged == nil {
				merged = v
				continue
			}
			m, ok := iteValue(phi.Type(), e.guard, v, merged)
			if !ok {
				return false
			}
			merged = m
		}
		over[phi] = merged
	}
	fr.phiOverride = over
	fr.prevBlock, fr.block = edges[0].pred, join
	EX.IfConversions++
	return true
}
