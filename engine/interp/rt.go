package interp

// Engine side of the harness runtime (package verifrt): symbolic inputs,
// Fill, assumptions, assertions, observations, thread control.

import (
	"fmt"
	"go/token"
	"go/types"
	"math"
	"math/big"
	"strings"

	"golang.org/x/tools/go/ssa"
)

const rtPkg = "github.com/enbility/spine-go/verifrt"

type rtFn func(fr *frame, args []value) value

var rtFuncs = map[string]rtFn{}

func (e *Explorer) nextFresh() int {
	e.freshN++
	return e.freshN
}

func strArg(v value) string {
	s, ok := v.(string)
	if !ok {
		panic(unsupported{fmt.Sprintf("verifrt: name/label must be a concrete string, got %T", v)})
	}
	return s
}

func symBoolVar(name string) value {
	t := mkVar(name, sortBool)
	EX.declareInput(t, false)
	return symBool{t}
}

func symIntVar(name string, k types.BasicKind) value {
	w, _ := kindWidth(k)
	var t *Term
	if intModeOn() {
		t = mkVar(name, sortInt)
		EX.declareInput(t, false)
		// range of the Go type
		_, signed := kindWidth(k)
		var lo, hi *big.Int
		if signed {
			hi = new(big.Int).Sub(new(big.Int).Lsh(big.NewInt(1), uint(w-1)), big.NewInt(1))
			lo = new(big.Int).Neg(new(big.Int).Lsh(big.NewInt(1), uint(w-1)))
		} else {
			lo = big.NewInt(0)
			hi = new(big.Int).Sub(new(big.Int).Lsh(big.NewInt(1), uint(w)), big.NewInt(1))
		}
		EX.addPC(mkAnd(mkCmp("ge", t, mkIntBig(lo), true), mkCmp("le", t, mkIntBig(hi), true)))
		return symInt{t, k}
	}
	t = mkVar(name, bvSort(w))
	EX.declareInput(t, false)
	if _, signed := kindWidth(k); signed {
		EX.signedInputs[t.id] = true
	}
	return symInt{t, k}
}

func symStrVar(name string, dom []string) value {
	t := mkVar(name, sortInt)
	EX.declareInput(t, true)
	if len(dom) > 0 {
		c := tFalse
		for _, d := range dom {
			c = mkOr(c, mkEq(t, mkInt(strID(d))))
		}
		EX.addPC(c)
		return symStr{id: t, dom: dom}
	}
	// fresh strings never collide with the "unknown id" space below 0
	return symStr{id: t}
}

func intRange(name string, lo, hi int64) int64 {
	if lo == hi {
		return lo
	}
	v := symIntVar(name, types.Int).(symInt)
	var lt, ht *Term
	if intModeOn() {
		lt, ht = mkInt(lo), mkInt(hi)
	} else {
		lt, ht = mkBVBig(big.NewInt(lo), 64), mkBVBig(big.NewInt(hi), 64)
	}
	EX.addPC(mkAnd(mkCmp("ge", v.t, lt, true), mkCmp("le", v.t, ht, true)))
	return concretizeInt(v, lo, hi)
}

// ---- Fill

type fillSpec struct {
	MaxLen     int
	Depth      int
	Only       []string
	Skip       []string
	PresentAll bool
	MaxUint    uint64
	NoStrings  bool
}

func specFromValue(v value, t types.Type) (sp fillSpec) {
	defer func() {
		if sp.MaxLen == 0 {
			sp.MaxLen = 2
		}
		if sp.MaxLen < 0 {
			sp.MaxLen = 0
		}
		if sp.Depth == 0 {
			sp.Depth = 4
		}
	}()
	st, ok := t.Underlying().(*types.Struct)
	if !ok {
		return sp
	}
	s := v.(structure)
	for i := 0; i < st.NumFields(); i++ {
		switch st.Field(i).Name() {
		case "MaxLen":
			sp.MaxLen = s[i].(int)
		case "Depth":
			sp.Depth = s[i].(int)
		case "PresentAll":
			sp.PresentAll = s[i].(bool)
		case "NoStrings":
			sp.NoStrings = s[i].(bool)
		case "MaxUint":
			sp.MaxUint = s[i].(uint64)
		case "Only":
			xs, _ := s[i].([]value)
			for _, x := range xs {
				sp.Only = append(sp.Only, x.(string))
			}
		case "Skip":
			ys, _ := s[i].([]value)
			for _, x := range ys {
				sp.Skip = append(sp.Skip, x.(string))
			}
		}
	}
	return sp
}

func contains(ss []string, s string) bool {
	for _, x := range ss {
		if x == s {
			return true
		}
	}
	return false
}

func fillValue(name string, t types.Type, sp *fillSpec, depth int, top bool) value {
	switch u := t.Underlying().(type) {
	case *types.Basic:
		switch {
		case u.Kind() == types.Bool:
			return symBoolVar(name)
		case u.Info()&types.IsInteger != 0:
			v := symIntVar(name, u.Kind()).(symInt)
			if sp.MaxUint > 0 {
				w, _ := kindWidth(u.Kind())
				if intModeOn() {
					EX.addPC(mkCmp("le", v.t, mkIntBig(new(big.Int).SetUint64(sp.MaxUint)), true))
				} else if w == 64 || sp.MaxUint < 1<<uint(w) {
					EX.addPC(mkCmp("le", v.t, mkBV(sp.MaxUint, w), false))
				}
			}
			return v
		case u.Kind() == types.Float64:
			t := mkVar(name, sortFP)
			EX.declareInput(t, false)
			return symF64{t}
		case u.Kind() == types.String:
			if sp.NoStrings {
				return ""
			}
			return symStrVar(name, nil)
		}
		return zero(t)
	case *types.Pointer:
		if depth > sp.Depth {
			return zero(t)
		}
		if named, ok := u.Elem().(*types.Named); ok && contains(sp.Skip, named.Obj().Name()) {
			return zero(t)
		}
		p := new(value)
		d := depth
		if _, ok := u.Elem().Underlying().(*types.Struct); ok {
			d = depth + 1
		}
		if sp.PresentAll {
			*p = fillValue(name, u.Elem(), sp, d, top)
			return p
		}
		pres := symBoolVar(name + "?").(symBool)
		// fill lazily-equivalent: the target exists on every path, it is only reachable if present
		*p = fillValue(name, u.Elem(), sp, d, top)
		return optPtr{pres.t, p}
	case *types.Struct:
		s := make(structure, u.NumFields())
		for i := 0; i < u.NumFields(); i++ {
			f := u.Field(i)
			if !f.Exported() || contains(sp.Skip, f.Name()) || (top && len(sp.Only) > 0 && !contains(sp.Only, f.Name())) {
				s[i] = zero(f.Type())
				continue
			}
			s[i] = fillValue(name+"."+f.Name(), f.Type(), sp, depth, false)
		}
		return s
	case *types.Slice:
		if depth > sp.Depth {
			return zero(t)
		}
		if b, ok := u.Elem().Underlying().(*types.Basic); ok && b.Kind() == types.Uint8 {
			return zero(t)
		}
		n := intRange(name+"#", 0, int64(sp.MaxLen))
		if n == 0 {
			return []value(nil)
		}
		d := depth
		if _, ok := u.Elem().Underlying().(*types.Struct); ok {
			d = depth + 1
		}
		out := make([]value, n)
		for i := range out {
			out[i] = fillValue(fmt.Sprintf("%s[%d]", name, i), u.Elem(), sp, d, top)
		}
		return out
	case *types.Array:
		out := make(array, u.Len())
		for i := range out {
			out[i] = fillValue(fmt.Sprintf("%s[%d]", name, i), u.Elem(), sp, depth, false)
		}
		return out
	}
	return zero(t)
}

// ---- observed values

func fmtObserved(v value) string {
	switch x := v.(type) {
	case bool:
		if x {
			return "true"
		}
		return "false"
	case string:
		return x
	case float64:
		return fmt.Sprintf("0x%016x", mathFloat64bits(x))
	case rope:
		if s, ok := x.concrete(); ok {
			return s
		}
		return "<rope>"
	}
	if k, ok := concreteIntKind(v); ok {
		_, signed := kindWidth(k)
		if signed {
			return fmt.Sprint(asInt64(v))
		}
		return fmt.Sprint(uint64(asInt64(v)))
	}
	return fmt.Sprintf("<%T>", v)
}

func rtName(fn *ssa.Function) (string, bool) {
	if pkgPathOf(fn) != rtPkg {
		return "", false
	}
	if o := fn.Origin(); o != nil {
		return o.Name(), true
	}
	return fn.Name(), true
}

func init() {
	r := rtFuncs
	r["Bool"] = func(fr *frame, args []value) value { return symBoolVar(strArg(args[0])) }
	r["U64"] = func(fr *frame, args []value) value { return symIntVar(strArg(args[0]), types.Uint64) }
	r["Uint"] = func(fr *frame, args []value) value { return symIntVar(strArg(args[0]), types.Uint) }
	r["I32"] = func(fr *frame, args []value) value { return symIntVar(strArg(args[0]), types.Int32) }
	r["I64"] = func(fr *frame, args []value) value { return symIntVar(strArg(args[0]), types.Int64) }
	r["F64"] = func(fr *frame, args []value) value {
		t := mkVar(strArg(args[0]), sortFP)
		EX.declareInput(t, false)
		return symF64{t}
	}
	r["IntRange"] = func(fr *frame, args []value) value {
		return int(intRange(strArg(args[0]), int64(args[1].(int)), int64(args[2].(int))))
	}
	r["Choice"] = func(fr *frame, args []value) value {
		return int(intRange(strArg(args[0]), 0, int64(args[1].(int))-1))
	}
	// ShardChoice is Choice restricted to the values congruent to this worker's shard
	// index; the driver runs one worker per residue, so together they cover 0..n-1.
	r["ShardChoice"] = func(fr *frame, args []value) value {
		n := int64(args[1].(int))
		name := strArg(args[0])
		EX.shardedByChoice = true
		cShard, cShards := EX.cfg.Shard, EX.cfg.Shards
		if EX.cfg.SubShards > 1 {
			cShard, cShards = EX.cfg.Shard/EX.cfg.SubShards, EX.cfg.Shards/EX.cfg.SubShards
		}
		if cShards <= 1 {
			return int(intRange(name, 0, n-1))
		}
		v := symIntVar(name, types.Int).(symInt)
		c := tFalse
		var vals []int64
		for k := int64(0); k < n; k++ {
			if int(k)%cShards == cShard {
				vals = append(vals, k)
				if intModeOn() {
					c = mkOr(c, mkEq(v.t, mkInt(k)))
				} else {
					c = mkOr(c, mkEq(v.t, mkBVBig(big.NewInt(k), 64)))
				}
			}
		}
		if len(vals) == 0 {
			panic(pathPruned{"no value of the shard choice belongs to this shard"})
		}
		EX.addPC(c)
		for _, k := range vals[:len(vals)-1] {
			var ct *Term
			if intModeOn() {
				ct = mkInt(k)
			} else {
				ct = mkBVBig(big.NewInt(k), 64)
			}
			if EX.decide(mkEq(v.t, ct)) {
				return int(k)
			}
		}
		return int(vals[len(vals)-1])
	}
	r["Str"] = func(fr *frame, args []value) value {
		var dom []string
		for _, d := range args[1].([]value) {
			dom = append(dom, d.(string))
		}
		return symStrVar(strArg(args[0]), dom)
	}
	r["Fill"] = func(fr *frame, args []value) value {
		name := strArg(args[0])
		dst := args[1].(iface)
		pt, ok := dst.t.Underlying().(*types.Pointer)
		if !ok {
			panic(unsupported{"verifrt.Fill needs a pointer"})
		}
		sp := specFromValue(args[2], fr.fn.Params[2].Type())
		cell := deref(fr, dst.v, "Fill target")
		store(pt.Elem(), cell, fillValue(name, pt.Elem(), &sp, 0, true))
		return nil
	}
	r["Opt"] = func(fr *frame, args []value) value {
		name := strArg(args[0])
		p, ok := args[1].(*value)
		if !ok || p == nil {
			return args[1]
		}
		pres := symBoolVar(name + "?").(symBool)
		return optPtr{pres.t, p}
	}
	r["Assume"] = func(fr *frame, args []value) value {
		switch c := args[0].(type) {
		case bool:
			if !c {
				panic(pathPruned{"assume false"})
			}
		case symBool:
			EX.assume(c.t, "Assume")
		}
		return nil
	}
	r["Assert"] = func(fr *frame, args []value) value {
		EX.assert(strArg(args[0]), args[1])
		return nil
	}
	r["Reach"] = func(fr *frame, args []value) value { EX.reach(strArg(args[0])); return nil }
	r["Scenario"] = func(fr *frame, args []value) value {
		EX.scenario = strArg(args[0])
		return nil
	}
	r["Note"] = func(fr *frame, args []value) value {
		EX.Assumptions[strArg(args[0])]++
		return nil
	}
	r["All"] = func(fr *frame, args []value) value {
		var out value = true
		for _, c := range args[0].([]value) {
			out = and2(out, c)
		}
		return out
	}
	r["Any"] = func(fr *frame, args []value) value {
		var out value = false
		for _, c := range args[0].([]value) {
			out = or2(out, c)
		}
		return out
	}
	r["Not"] = func(fr *frame, args []value) value { return not1(args[0]) }
	r["Implies"] = func(fr *frame, args []value) value { return or2(not1(args[0]), args[1]) }
	r["Iff"] = func(fr *frame, args []value) value {
		return mkSymBool(mkEq(boolTerm(args[0]), boolTerm(args[1])))
	}
	r["IteU64"] = func(fr *frame, args []value) value {
		c := boolTerm(args[0])
		a, k := intTerm(args[1])
		b, _ := intTerm(args[2])
		return mkSymInt(mkIte(c, a, b), k)
	}
	r["IteInt"] = r["IteU64"]
	r["Concrete"] = func(fr *frame, args []value) value { return concretizeBool(args[0]) }
	r["ConcreteInt"] = func(fr *frame, args []value) value {
		return int(concretizeInt(args[0], int64(args[1].(int)), int64(args[2].(int))))
	}
	r["DeepEq"] = func(fr *frame, args []value) value {
		a, b := args[0].(iface), args[1].(iface)
		if a.t == nil || b.t == nil {
			return a.t == nil && b.t == nil
		}
		if !types.Identical(a.t, b.t) {
			return false
		}
		return deepEq(a.t, a.v, b.v, map[[2]*value]bool{})
	}
	r["Freeze"] = func(fr *frame, args []value) value {
		a := args[0].(iface)
		if a.t == nil {
			return a
		}
		return iface{a.t, deepCopy(a.t, a.v, map[*value]*value{}, false)}
	}
	r["IsNil"] = func(fr *frame, args []value) value {
		a := args[0].(iface)
		if a.t == nil {
			return true
		}
		switch x := a.v.(type) {
		case optPtr:
			return mkSymBool(mkNot(x.present))
		case *value:
			return x == nil
		case []value:
			return x == nil
		case *omap:
			return x == nil
		}
		return false
	}
	r["SameStr"] = func(fr *frame, args []value) value { return strEq(args[0], args[1]) }
	r["Observe"] = func(fr *frame, args []value) value {
		a := args[1].(iface)
		EX.observed = append(EX.observed, obsEntry{name: strArg(args[0]), val: a.v})
		return nil
	}
	// ---- threads
	r["Go"] = func(fr *frame, args []value) value {
		t := SC.spawn(args[0], nil, stReady, "harness")
		t.harness = true
		return nil
	}
	r["Yield"] = func(fr *frame, args []value) value { SC.yield(); return nil }
	r["WaitIdle"] = func(fr *frame, args []value) value { SC.waitIdle(false); RD.joinAll(); return nil }
	r["RaceDetect"] = func(fr *frame, args []value) value {
		RD.on = args[0].(bool)
		if RD.on {
			EX.Stubs["race detection: vector clocks over go/AfterFunc forks, mutex and RWMutex release-acquire, channel, atomic and sync.Once operations (two-way); loads, stores, map operations, in-place append/copy of repository code"]++
			for _, t := range SC.thr {
				if t.vc == nil {
					t.vc = vclock{}.set(t.id, 1)
				}
			}
		}
		return nil
	}
	r["RunReadyFIFO"] = func(fr *frame, args []value) value {
		for {
			en := SC.enabled(false)
			if len(en) == 0 {
				RD.joinAll()
				return nil
			}
			cur := SC.cur
			cur.state = stWaitIdle
			SC.switchTo(en[0])
			cur.state = stReady
		}
	}
	r["FireTimers"] = func(fr *frame, args []value) value { SC.waitIdle(true); RD.joinAll(); return nil }
	r["PreemptOn"] = func(fr *frame, args []value) value { SC.preemptOn = true; return nil }
	r["PreemptOff"] = func(fr *frame, args []value) value { SC.preemptOn = false; return nil }
	r["PreemptAtUnlock"] = func(fr *frame, args []value) value { SC.unlockYield = args[0].(bool); return nil }
	r["SpawnedFIFO"] = func(fr *frame, args []value) value { SC.spawnedFIFO = args[0].(bool); return nil }
	r["PreemptOnlyHolding"] = func(fr *frame, args []value) value { SC.onlyHolding = args[0].(bool); return nil }
	r["PendingTimers"] = func(fr *frame, args []value) value {
		n := 0
		for _, t := range SC.thr {
			if t.state == stTimer {
				n++
			}
		}
		return n
	}
	r["BlockedThreads"] = func(fr *frame, args []value) value { return len(SC.blockedThreads()) }
	r["Tick"] = func(fr *frame, args []value) value {
		tt := fr.i.prog.ImportedPackage("time").Type("Time").Type()
		for _, c := range SC.Tickers {
			if len(c.buf) < c.cap {
				c.buf = append(c.buf, zero(tt))
			}
		}
		SC.wakeChanWaiters()
		return nil
	}
	r["TickerCount"] = func(fr *frame, args []value) value { return len(SC.Tickers) }
	r["TickerPeriod"] = func(fr *frame, args []value) value {
		i := args[0].(int)
		if i < 0 || i >= len(SC.TickerPeriods) {
			return int64(0)
		}
		return conv(types.Typ[types.Int64], types.Typ[types.Int64], SC.TickerPeriods[i])
	}
	r["TickerResetCount"] = func(fr *frame, args []value) value { return len(SC.TickerResets) }
	r["TickerResetPeriod"] = func(fr *frame, args []value) value {
		i := args[0].(int)
		if i < 0 || i >= len(SC.TickerResets) {
			return int64(0)
		}
		return conv(types.Typ[types.Int64], types.Typ[types.Int64], SC.TickerResets[i].period)
	}
	r["AssumeDecimals"] = func(fr *frame, args []value) value {
		n := args[1].(int)
		EX.Stubs["strconv.FormatFloat(v,'f',-1,64) of a symbolic float: stand-in string with the number of fractional digits stated by the harness (AssumeDecimals)"]++
		if s, ok := args[0].(symF64); ok {
			EX.decimals[s.t.id] = n
		} else {
			AssumeDecimalsConcrete(args[0].(float64), n)
		}
		return nil
	}
	r["Param"] = func(fr *frame, args []value) value {
		if v, ok := EX.cfg.Params[strArg(args[0])]; ok {
			return v
		}
		return args[1]
	}
	r["ClockReading"] = func(fr *frame, args []value) value {
		k := args[0].(int)
		w, _ := kindWidth(types.Int64)
		if intModeOn() {
			return symInt{mkVar(fmt.Sprintf("$now%d", k), sortInt), types.Int64}
		}
		return symInt{mkVar(fmt.Sprintf("$now%d", k), bvSort(w)), types.Int64}
	}
	r["Register"] = func(fr *frame, args []value) value { return nil }
	r["InEngine"] = func(fr *frame, args []value) value { return true }
}

func mathFloat64bits(f float64) uint64 { return math.Float64bits(f) }

var _ = strings.Join
var _ = token.ADD
