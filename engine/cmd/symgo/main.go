package main

import (
	"encoding/json"
	"flag"
	"fmt"
	"os"
	"path/filepath"
	"strings"
	"time"

	"symgo/interp"
)

func usage() {
	fmt.Fprintln(os.Stderr, "usage: symgo run|check|replay|selftest ...")
	os.Exit(2)
}

func main() {
	if len(os.Args) < 2 {
		usage()
	}
	switch os.Args[1] {
	case "run":
		cmdRun(os.Args[2:])
	case "check":
		os.Exit(cmdCheck(os.Args[2:]))
	case "replay":
		os.Exit(cmdReplay(os.Args[2:]))
	default:
		usage()
	}
}

func parseOverlay(s string) map[string]string {
	m := map[string]string{}
	for _, kv := range strings.Split(s, ",") {
		if kv == "" {
			continue
		}
		p := strings.SplitN(kv, "=", 2)
		if len(p) == 2 {
			m[p[0]] = p[1]
		}
	}
	return m
}

// cmdRun explores one harness in this process and writes a RunResult as JSON.
func cmdRun(args []string) {
	fs := flag.NewFlagSet("run", flag.ExitOnError)
	repo := fs.String("repo", "/repo", "repository directory")
	verif := fs.String("verif", "/verif", "verification directory")
	pkg := fs.String("pkg", "spine", "package (spine|model)")
	harness := fs.String("harness", "", "harness function name")
	solver := fs.String("solver", "z3", "z3 | z3-new | cvc5")
	preempt := fs.Int("preempt", 0, "pre-emption bound")
	intmode := fs.Bool("intmode", false, "mathematical integers with overflow obligations")
	maxPaths := fs.Int("max-paths", 0, "path budget")
	maxSteps := fs.Int64("max-steps", 0, "instruction budget per path")
	qt := fs.Int("query-timeout", 10000, "solver timeout per query (ms)")
	timeout := fs.Int("timeout", 0, "wall-clock budget in seconds (0 = none)")
	shard := fs.String("shard", "0/1", "i/n")
	wit := fs.Int("witnesses", 0, "path witnesses to emit")
	overlay := fs.String("overlay", "", "extra overlay virt=real,...")
	out := fs.String("out", "", "result file (default stdout)")
	verbose := fs.Bool("v", false, "progress on stderr")
	params := fs.String("params", "", "harness parameters k=v,...")
	subShards := fs.Int("sub", 1, "prefix sub-shards per ShardChoice residue")
	fs.Parse(args)

	cfg := interp.Config{Solver: *solver, QueryTimeout: *qt, MaxPaths: *maxPaths, MaxSteps: *maxSteps, Preempt: *preempt, IntMode: *intmode, Witnesses: *wit, Verbose: *verbose}
	fmt.Sscanf(*shard, "%d/%d", &cfg.Shard, &cfg.Shards)
	cfg.SubShards = *subShards
	cfg.Params = map[string]int{}
	for _, kv := range strings.Split(*params, ",") {
		var k string
		var v int
		if p := strings.SplitN(kv, "=", 2); len(p) == 2 {
			k = p[0]
			fmt.Sscan(p[1], &v)
			cfg.Params[k] = v
		}
	}
	if *timeout > 0 {
		cfg.Deadline = time.Now().Add(time.Duration(*timeout) * time.Second)
	}
	extra := parseOverlay(*overlay)
	genVirt := filepath.Join(*repo, "model", "zz_verif_gen_model.go")
	if _, ok := extra[genVirt]; !ok {
		os.MkdirAll(filepath.Join(*verif, ".work"), 0o755)
		tmp, err := os.MkdirTemp(filepath.Join(*verif, ".work"), "gen-")
		if err == nil {
			defer os.RemoveAll(tmp)
			if err := genAll(*repo, tmp, extra); err != nil {
				fmt.Fprintln(os.Stderr, "generator:", err)
				os.Exit(3)
			}
		}
	}
	ov := interp.RepoOverlay(*repo, *verif, extra)
	t0 := time.Now()
	P, err := interp.LoadProgram(*repo, ov, []string{"./" + *pkg})
	if err != nil {
		fmt.Fprintln(os.Stderr, "load error:", err)
		os.Exit(3)
	}
	if *verbose {
		fmt.Fprintf(os.Stderr, "loaded in %v\n", time.Since(t0))
	}
	res, err := P.Explore("github.com/enbility/spine-go/"+*pkg, *harness, cfg)
	if err != nil {
		fmt.Fprintln(os.Stderr, "explore error:", err)
		os.Exit(3)
	}
	b, _ := json.MarshalIndent(res, "", " ")
	if *out != "" {
		os.WriteFile(*out, b, 0o644)
	} else {
		os.Stdout.Write(b)
		fmt.Println()
	}
}
