package main

// go/ast instrumenter for native replay of schedules: rewrites the lock,
// go, timer and (for the heartbeat) channel operations of /repo's spine and
// model packages into calls of the verifrt scheduler, which is a twin of the
// engine's. The instrumented files exist only in the overlay of the replay
// build; with no scheduler installed every inserted call is a pass-through.

import (
	"bytes"
	"go/ast"
	"go/format"
	"go/parser"
	"go/token"
	"os"
	"path/filepath"
	"strconv"
	"strings"
)

const rtImport = "github.com/enbility/spine-go/verifrt"

func iSel(x ast.Expr, name string) *ast.SelectorExpr {
	return &ast.SelectorExpr{X: x, Sel: ast.NewIdent(name)}
}
func iRT(name string) ast.Expr { return iSel(ast.NewIdent("verifrt"), name) }
func iCall(fn ast.Expr, args ...ast.Expr) ast.Stmt {
	return &ast.ExprStmt{X: &ast.CallExpr{Fun: fn, Args: args}}
}
func iAddr(x ast.Expr) ast.Expr { return &ast.UnaryExpr{Op: token.AND, X: x} }

func iMethodCall(e ast.Expr, names ...string) (ast.Expr, string, bool) {
	c, ok := e.(*ast.CallExpr)
	if !ok || len(c.Args) != 0 {
		return nil, "", false
	}
	s, ok := c.Fun.(*ast.SelectorExpr)
	if !ok {
		return nil, "", false
	}
	for _, n := range names {
		if s.Sel.Name == n {
			return s.X, n, true
		}
	}
	return nil, "", false
}

type instr struct{ used bool }

func (in *instr) rewriteList(list []ast.Stmt) []ast.Stmt {
	var out []ast.Stmt
	for _, st := range list {
		switch s := st.(type) {
		case *ast.ExprStmt:
			if x, n, ok := iMethodCall(s.X, "Lock", "RLock"); ok {
				in.used = true
				rd := ast.NewIdent("false")
				if n == "RLock" {
					rd = ast.NewIdent("true")
				}
				out = append(out, iCall(iRT("BeforeLock"), iAddr(x), rd), st, iCall(iRT("AfterLock"), iAddr(x), rd))
				continue
			}
			if x, n, ok := iMethodCall(s.X, "Unlock", "RUnlock"); ok {
				in.used = true
				rd := ast.NewIdent("false")
				if n == "RUnlock" {
					rd = ast.NewIdent("true")
				}
				out = append(out, st, iCall(iRT("AfterUnlock"), iAddr(x), rd))
				continue
			}
		case *ast.DeferStmt:
			if x, n, ok := iMethodCall(s.Call, "Unlock", "RUnlock"); ok {
				in.used = true
				rd := ast.NewIdent("false")
				if n == "RUnlock" {
					rd = ast.NewIdent("true")
				}
				out = append(out, &ast.DeferStmt{Call: &ast.CallExpr{Fun: iRT("DeferredUnlock"), Args: []ast.Expr{iAddr(x), s.Call.Fun, rd}}})
				continue
			}
		case *ast.GoStmt:
			in.used = true
			var pre []ast.Stmt
			fn := ast.NewIdent("vrF")
			pre = append(pre, &ast.AssignStmt{Lhs: []ast.Expr{fn}, Tok: token.DEFINE, Rhs: []ast.Expr{s.Call.Fun}})
			var args []ast.Expr
			for i, a := range s.Call.Args {
				id := ast.NewIdent("vrA" + strconv.Itoa(i))
				pre = append(pre, &ast.AssignStmt{Lhs: []ast.Expr{id}, Tok: token.DEFINE, Rhs: []ast.Expr{a}})
				args = append(args, id)
			}
			lit := &ast.FuncLit{Type: &ast.FuncType{Params: &ast.FieldList{}}, Body: &ast.BlockStmt{List: []ast.Stmt{&ast.ExprStmt{X: &ast.CallExpr{Fun: fn, Args: args}}}}}
			pre = append(pre, iCall(iRT("GoStmt"), lit))
			out = append(out, &ast.BlockStmt{List: pre})
			continue
		}
		out = append(out, st)
	}
	return out
}

func instrumentFile(src, dst string) (bool, error) {
	fset := token.NewFileSet()
	f, err := parser.ParseFile(fset, src, nil, parser.ParseComments)
	if err != nil {
		return false, err
	}
	in := &instr{}
	ast.Inspect(f, func(n ast.Node) bool {
		switch b := n.(type) {
		case *ast.BlockStmt:
			b.List = in.rewriteList(b.List)
		case *ast.CaseClause:
			b.Body = in.rewriteList(b.Body)
		case *ast.CommClause:
			b.Body = in.rewriteList(b.Body)
		case *ast.CallExpr:
			if s, ok := b.Fun.(*ast.SelectorExpr); ok {
				if id, ok := s.X.(*ast.Ident); ok && id.Name == "time" && s.Sel.Name == "AfterFunc" {
					in.used = true
					b.Fun = iRT("AfterFunc")
				} else if id, ok := s.X.(*ast.Ident); ok && id.Name == "time" && s.Sel.Name == "Now" && len(b.Args) == 0 {
					in.used = true
					b.Fun = iRT("Now")
				} else if s.Sel.Name == "Stop" && len(b.Args) == 0 {
					// timer.Stop() -> verifrt.StopTimer(timer) (other types fall through to their own Stop)
					in.used = true
					b.Args = []ast.Expr{s.X}
					b.Fun = iRT("StopTimer")
				}
			}
		}
		return true
	})
	if !in.used {
		return false, nil
	}
	imp := &ast.ImportSpec{Path: &ast.BasicLit{Kind: token.STRING, Value: strconv.Quote(rtImport)}}
	added := false
	for _, d := range f.Decls {
		if g, ok := d.(*ast.GenDecl); ok && g.Tok == token.IMPORT {
			for _, sp := range g.Specs {
				if sp.(*ast.ImportSpec).Path.Value == strconv.Quote(rtImport) {
					added = true
				}
			}
			if !added {
				g.Specs = append(g.Specs, imp)
				added = true
			}
			break
		}
	}
	if !added {
		f.Decls = append([]ast.Decl{&ast.GenDecl{Tok: token.IMPORT, Specs: []ast.Spec{imp}}}, f.Decls...)
	}
	var buf bytes.Buffer
	if err := format.Node(&buf, fset, f); err != nil {
		return false, err
	}
	return true, os.WriteFile(dst, buf.Bytes(), 0o644)
}

// instrumentForSchedule instruments spine and model (current source, with the
// extra overlay applied) and returns the overlay entries for the replay build.
func instrumentForSchedule(repo, pkg, work string, extra map[string]string) (map[string]string, error) {
	out := map[string]string{}
	for _, p := range []string{"spine", "model"} {
		files, _ := filepath.Glob(filepath.Join(repo, p, "*.go"))
		seen := map[string]bool{}
		for _, f := range files {
			seen[f] = true
		}
		for virt := range extra {
			if filepath.Dir(virt) == filepath.Join(repo, p) && !seen[virt] && !strings.Contains(virt, "zz_verif_") {
				files = append(files, virt)
			}
		}
		for _, f := range files {
			if strings.HasSuffix(f, "_test.go") {
				continue
			}
			src := f
			if real, ok := extra[f]; ok {
				src = real
			}
			dst := filepath.Join(work, "inst_"+p+"_"+filepath.Base(f))
			ok, err := instrumentFile(src, dst)
			if err != nil {
				return nil, err
			}
			if ok {
				out[f] = dst
			}
		}
	}
	return out, nil
}
