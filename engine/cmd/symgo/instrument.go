package main

import "fmt"

// instrumentForSchedule is replaced by the go/ast instrumenter (instrument_ast.go) once schedule replay is wired.
func instrumentForSchedule(repo, pkg, work string) (map[string]string, error) {
	return nil, fmt.Errorf("schedule instrumentation not available")
}
