package main

// Generator: derives, from /repo's current source (go/types), the per-type
// descriptors the generic harnesses need: every model.Updater list type with
// its item type, key / writecheck fields, selector and elements types and
// the FilterType / CmdType fields that carry them; every function registered
// by spine.CreateFunctionData is listed by the spine generator (genSpine).
// Regenerated on every run, so a changed struct, tag or table changes the
// symbolic input space.

import (
	"fmt"
	"go/types"
	"os"
	"path/filepath"
	"reflect"
	"sort"
	"strings"

	"golang.org/x/tools/go/packages"
)

type genItemField struct {
	Name     string
	Kind     string // uint | string | bool | struct | other
	ElemType string
}

type genList struct {
	List, Item, ListField string
	Keys                  []genItemField
	WriteCheck            string
	Fields                []string // item fields made symbolic
	AllFields             []string
	Sel, Elem             string // type names ("" if absent)
	SelFilterField        string
	ElemFilterField       string
	SelFields             []string
	SliceField, SliceType string // first slice-typed (non-pointer) item field and its Go type, if any
	CmdField              string
	Function              string
	ItemIsStruct          bool
}

func eebusTag(tag string) map[string]string {
	out := map[string]string{}
	t := reflect.StructTag(tag).Get("eebus")
	if t == "" {
		return out
	}
	for _, p := range strings.Split(t, ",") {
		kv := strings.SplitN(p, ":", 2)
		if len(kv) == 1 {
			out[kv[0]] = "true"
		} else {
			out[kv[0]] = kv[1]
		}
	}
	return out
}

func loadModelTypes(repo string, overlay map[string]string) (*types.Package, error) {
	ov := map[string][]byte{}
	for virt, real := range overlay {
		if strings.HasPrefix(virt, filepath.Join(repo, "model")+"/") && !strings.Contains(virt, "zz_verif_") {
			b, err := os.ReadFile(real)
			if err != nil {
				return nil, err
			}
			ov[virt] = b
		}
	}
	cfg := &packages.Config{Mode: packages.NeedTypes | packages.NeedName | packages.NeedImports | packages.NeedDeps, Dir: repo, Overlay: ov,
		Env: append(os.Environ(), "GOFLAGS=-mod=mod", "GOPROXY=off", "GOSUMDB=off", "GOTOOLCHAIN=local")}
	pkgs, err := packages.Load(cfg, "./model")
	if err != nil {
		return nil, err
	}
	if len(pkgs) != 1 || len(pkgs[0].Errors) > 0 {
		return nil, fmt.Errorf("loading model types: %v", pkgs[0].Errors)
	}
	return pkgs[0].Types, nil
}

func surveyLists(pkg *types.Package) ([]*genList, error) {
	upd := pkg.Scope().Lookup("Updater").Type().Underlying().(*types.Interface)
	filterSt := pkg.Scope().Lookup("FilterType").Type().Underlying().(*types.Struct)
	cmdSt := pkg.Scope().Lookup("CmdType").Type().Underlying().(*types.Struct)
	fieldOfPtrType := func(st *types.Struct, typeName string) (string, string) {
		for i := 0; i < st.NumFields(); i++ {
			if p, ok := st.Field(i).Type().(*types.Pointer); ok {
				if n, ok := p.Elem().(*types.Named); ok && n.Obj().Name() == typeName {
					return st.Field(i).Name(), eebusTag(st.Tag(i))["fct"]
				}
			}
		}
		return "", ""
	}
	var names []string
	for _, n := range pkg.Scope().Names() {
		names = append(names, n)
	}
	sort.Strings(names)
	var out []*genList
	for _, n := range names {
		tn, ok := pkg.Scope().Lookup(n).(*types.TypeName)
		if !ok || !types.Implements(types.NewPointer(tn.Type()), upd) {
			continue
		}
		st, ok := tn.Type().Underlying().(*types.Struct)
		if !ok {
			continue
		}
		g := &genList{List: n}
		var item *types.Named
		for i := 0; i < st.NumFields(); i++ {
			if sl, ok := st.Field(i).Type().Underlying().(*types.Slice); ok {
				if nm, ok := sl.Elem().(*types.Named); ok && item == nil {
					item = nm
					g.ListField = st.Field(i).Name()
				}
			}
		}
		if item == nil {
			continue
		}
		g.Item = item.Obj().Name()
		g.CmdField, g.Function = fieldOfPtrType(cmdSt, n)
		ist, ok := item.Underlying().(*types.Struct)
		if ok {
			g.ItemIsStruct = true
			extra := 0
			for i := 0; i < ist.NumFields(); i++ {
				f := ist.Field(i)
				tags := eebusTag(ist.Tag(i))
				g.AllFields = append(g.AllFields, f.Name())
				if _, isSlice := f.Type().Underlying().(*types.Slice); isSlice && g.SliceField == "" {
					g.SliceField = f.Name()
					g.SliceType = types.TypeString(f.Type(), func(p *types.Package) string {
						if p == pkg {
							return ""
						}
						return p.Name()
					})
				}
				p, isPtr := f.Type().Underlying().(*types.Pointer)
				kind, elem := "other", ""
				if isPtr {
					if nm, ok := p.Elem().(*types.Named); ok {
						elem = nm.Obj().Name()
					}
					switch u := p.Elem().Underlying().(type) {
					case *types.Basic:
						switch {
						case u.Info()&types.IsUnsigned != 0:
							kind = "uint"
						case u.Info()&types.IsString != 0:
							kind = "string"
						case u.Kind() == types.Bool:
							kind = "bool"
						}
					case *types.Struct:
						kind = "struct"
					}
				}
				if _, ok := tags["key"]; ok {
					g.Keys = append(g.Keys, genItemField{f.Name(), kind, elem})
					g.Fields = append(g.Fields, f.Name())
					continue
				}
				if _, ok := tags["writecheck"]; ok {
					g.WriteCheck = f.Name()
					g.Fields = append(g.Fields, f.Name())
					continue
				}
				if isPtr && extra < 2 && elem != "TimePeriodType" && (kind == "uint" || kind == "string" || kind == "bool" || kind == "struct") {
					// nested structs only when they are small scalar holders (ScaledNumberType etc.)
					if kind == "struct" {
						sst := p.Elem().Underlying().(*types.Struct)
						simple := sst.NumFields() <= 3
						for k := 0; k < sst.NumFields(); k++ {
							if pp, ok := sst.Field(k).Type().Underlying().(*types.Pointer); !ok {
								simple = false
							} else if _, ok := pp.Elem().Underlying().(*types.Basic); !ok {
								simple = false
							}
						}
						if !simple {
							continue
						}
					}
					extra++
					g.Fields = append(g.Fields, f.Name())
				}
			}
			en := strings.TrimSuffix(g.Item, "Type") + "ElementsType"
			if eo := pkg.Scope().Lookup(en); eo != nil {
				if est, ok := eo.Type().Underlying().(*types.Struct); ok && est.NumFields() == ist.NumFields() {
					g.Elem = en
					g.ElemFilterField, _ = fieldOfPtrType(filterSt, en)
				}
			}
		}
		sn := strings.TrimSuffix(n, "Type") + "SelectorsType"
		if so := pkg.Scope().Lookup(sn); so != nil {
			g.Sel = sn
			g.SelFilterField, _ = fieldOfPtrType(filterSt, sn)
			if sst, ok := so.Type().Underlying().(*types.Struct); ok {
				for i := 0; i < sst.NumFields(); i++ {
					g.SelFields = append(g.SelFields, sst.Field(i).Name())
				}
			}
		}
		out = append(out, g)
	}
	return out, nil
}

func strList(ss []string) string {
	var q []string
	for _, s := range ss {
		q = append(q, fmt.Sprintf("%q", s))
	}
	return "[]string{" + strings.Join(q, ", ") + "}"
}

// genModel writes the generated descriptor file for package model and returns its path.
func genModel(repo, work string, overlay map[string]string) (string, error) {
	pkg, err := loadModelTypes(repo, overlay)
	if err != nil {
		return "", err
	}
	lists, err := surveyLists(pkg)
	if err != nil {
		return "", err
	}
	var sb strings.Builder
	sb.WriteString("// Code generated by symgo from /repo/model's current source. DO NOT EDIT.\n\npackage model\n\n")
	sb.WriteString("func init() {\n\tvhLists = []*vhList{\n")
	n := 0
	for _, g := range lists {
		if !g.ItemIsStruct || g.Sel == "" || g.Elem == "" || g.SelFilterField == "" || g.ElemFilterField == "" {
			fmt.Fprintf(&sb, "\t\t// skipped %s: item struct=%v selectors=%q elements=%q filter fields %q/%q\n", g.List, g.ItemIsStruct, g.Sel, g.Elem, g.SelFilterField, g.ElemFilterField)
			continue
		}
		n++
		var keys, kinds []string
		for _, k := range g.Keys {
			keys = append(keys, k.Name)
			kinds = append(kinds, k.Kind)
		}
		fmt.Fprintf(&sb, "\t\t{\n\t\t\tName: %q, Item: %q, Function: %q, CmdField: %q,\n", g.List, g.Item, g.Function, g.CmdField)
		fmt.Fprintf(&sb, "\t\t\tKeys: %s, KeyKinds: %s, WriteCheck: %q,\n", strList(keys), strList(kinds), g.WriteCheck)
		fmt.Fprintf(&sb, "\t\t\tFields: %s,\n\t\t\tAllFields: %s,\n\t\t\tSelFields: %s,\n", strList(g.Fields), strList(g.AllFields), strList(g.SelFields))
		fmt.Fprintf(&sb, "\t\t\tNew: func() Updater { return &%s{} },\n", g.List)
		if g.SliceField != "" {
			fmt.Fprintf(&sb, "\t\t\tSliceField: %q,\n\t\t\tSetSlice: func(it any, n int) { it.(*%s).%s = make(%s, n) },\n", g.SliceField, g.Item, g.SliceField, g.SliceType)
		}
		fmt.Fprintf(&sb, "\t\t\tItems: func(l any) any { return &l.(*%s).%s },\n", g.List, g.ListField)
		fmt.Fprintf(&sb, "\t\t\tSlice: func(l any) any { return l.(*%s).%s },\n", g.List, g.ListField)
		fmt.Fprintf(&sb, "\t\t\tLen: func(l any) int { return len(l.(*%s).%s) },\n", g.List, g.ListField)
		fmt.Fprintf(&sb, "\t\t\tAt: func(l any, i int) any { return &l.(*%s).%s[i] },\n", g.List, g.ListField)
		fmt.Fprintf(&sb, "\t\t\tIsRes: func(r any) bool { _, ok := r.([]%s); return ok },\n", g.Item)
		fmt.Fprintf(&sb, "\t\t\tResLen: func(r any) int { return len(r.([]%s)) },\n", g.Item)
		fmt.Fprintf(&sb, "\t\t\tResAt: func(r any, i int) any { s := r.([]%s); return &s[i] },\n", g.Item)
		fmt.Fprintf(&sb, "\t\t\tSetItems: func(l any, r any) { l.(*%s).%s = r.([]%s) },\n", g.List, g.ListField, g.Item)
		fmt.Fprintf(&sb, "\t\t\tNewSel: func() any { return &%s{} },\n", g.Sel)
		fmt.Fprintf(&sb, "\t\t\tSetSel: func(f *FilterType, s any) { f.%s = s.(*%s) },\n", g.SelFilterField, g.Sel)
		fmt.Fprintf(&sb, "\t\t\tNewElem: func() any { return &%s{} },\n", g.Elem)
		fmt.Fprintf(&sb, "\t\t\tSetElem: func(f *FilterType, e any) { f.%s = e.(*%s) },\n", g.ElemFilterField, g.Elem)
		sb.WriteString("\t\t},\n")
	}
	sb.WriteString("\t}\n")
	// ---- every function that has a CmdType field
	cmdSt := pkg.Scope().Lookup("CmdType").Type().Underlying().(*types.Struct)
	filterSt := pkg.Scope().Lookup("FilterType").Type().Underlying().(*types.Struct)
	hasFilterField := func(typeName string) bool {
		for i := 0; i < filterSt.NumFields(); i++ {
			if p, ok := filterSt.Field(i).Type().(*types.Pointer); ok {
				if nm, ok := p.Elem().(*types.Named); ok && nm.Obj().Name() == typeName {
					return true
				}
			}
		}
		return false
	}
	listOf := map[string]*genList{}
	for _, g := range lists {
		listOf[g.List] = g
	}
	type fn struct{ function, field, payload, sel, elem string }
	var fns []fn
	elemUsers := map[string][]string{}
	for i := 0; i < cmdSt.NumFields(); i++ {
		f := cmdSt.Field(i)
		fct := eebusTag(cmdSt.Tag(i))["fct"]
		p, ok := f.Type().(*types.Pointer)
		if !ok || fct == "" {
			continue
		}
		nm, ok := p.Elem().(*types.Named)
		if !ok {
			continue
		}
		x := fn{function: fct, field: f.Name(), payload: nm.Obj().Name()}
		sn := strings.TrimSuffix(x.payload, "Type") + "SelectorsType"
		if pkg.Scope().Lookup(sn) != nil && hasFilterField(sn) {
			x.sel = sn
		}
		en := strings.TrimSuffix(x.payload, "Type") + "ElementsType"
		if g := listOf[x.payload]; g != nil && g.ItemIsStruct {
			en = strings.TrimSuffix(g.Item, "Type") + "ElementsType"
		}
		if pkg.Scope().Lookup(en) != nil && hasFilterField(en) {
			x.elem = en
			elemUsers[en] = append(elemUsers[en], fct)
		}
		fns = append(fns, x)
	}
	sb.WriteString("\tvhFuncs = []*vhFunc{\n")
	for _, x := range fns {
		fmt.Fprintf(&sb, "\t\t{Function: %q, CmdField: %q, Payload: %q,\n\t\t\tNewPayload: func() any { return &%s{} },\n", x.function, x.field, x.payload, x.payload)
		if x.sel != "" {
			fmt.Fprintf(&sb, "\t\t\tNewSel: func() any { return &%s{} },\n", x.sel)
		}
		if x.elem != "" {
			// an elements type shared by several functions has a single filter field: the round trip is required for the list function only
			shared := len(elemUsers[x.elem]) > 1 && !strings.HasSuffix(x.function, "ListData")
			fmt.Fprintf(&sb, "\t\t\tNewElem: func() any { return &%s{} }, ElemShared: %v,\n", x.elem, shared)
		}
		sb.WriteString("\t\t},\n")
	}
	sb.WriteString("\t}\n}\n")
	if n == 0 {
		return "", fmt.Errorf("generator found no usable model.Updater type: the type-structure convention no longer holds")
	}
	f := filepath.Join(work, "zz_verif_gen_model.go")
	if err := os.WriteFile(f, []byte(sb.String()), 0o644); err != nil {
		return "", err
	}
	return f, nil
}
