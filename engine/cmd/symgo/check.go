package main

// The check driver: runs the harnesses of one property in parallel worker
// processes, replays counterexamples and witnesses natively, matches known
// findings, writes the evidence file and prints VIOLATION / KNOWN-FINDING lines.

import (
	"encoding/json"
	"flag"
	"fmt"
	"os"
	"os/exec"
	"path/filepath"
	"regexp"
	"sort"
	"strconv"
	"strings"
	"sync"
	"time"

	"symgo/interp"
)

type TierCfg struct {
	Shards       int            `json:"shards"`
	MaxPaths     int            `json:"max_paths"`
	Timeout      int            `json:"timeout_s"`
	Preempt      *int           `json:"preempt"`
	QueryTimeout int            `json:"query_timeout_ms"`
	Params       map[string]int `json:"params"`
	Witnesses    int            `json:"witnesses"`
	SubShards    int            `json:"sub_shards"`
	Skip         bool           `json:"skip"`
}

type HarnessCfg struct {
	Name     string             `json:"name"`
	Property string             `json:"property"`
	Pkg      string             `json:"pkg"`
	Solver   string             `json:"solver"`
	IntMode  bool               `json:"intmode"`
	Sched    bool               `json:"sched"`
	Native   *bool              `json:"native"` // false: counterexamples are replayed in the interpreter only
	Preempt  int                `json:"preempt"`
	Reach    []string           `json:"reach_required"`
	Tiers    map[string]TierCfg `json:"tiers"`
	About    string             `json:"about"`
	Bounds   string             `json:"bounds"`
	Outside  string             `json:"outside"`
}

type Registry struct {
	Harnesses []HarnessCfg `json:"harnesses"`
}

type Finding struct {
	Property  string `json:"property"`
	Harness   string `json:"harness"`
	Scenario  string `json:"scenario"` // glob
	Kind      string `json:"kind"`
	Label     string `json:"label"`
	PanicSite string `json:"panic_site"` // substring
	What      string `json:"what"`
	Status    string `json:"status"` // known | fixed
	Commit    string `json:"commit,omitempty"`
}

type Findings struct {
	Findings []Finding `json:"findings"`
}

func loadJSON(path string, v any) error {
	b, err := os.ReadFile(path)
	if err != nil {
		return err
	}
	return json.Unmarshal(b, v)
}

func globMatch(pat, s string) bool {
	if pat == "" || pat == "*" {
		return true
	}
	re := "^" + strings.ReplaceAll(regexp.QuoteMeta(pat), "\\*", ".*") + "$"
	ok, _ := regexp.MatchString(re, s)
	return ok
}

func (f *Finding) matches(prop string, v *interp.Violation) bool {
	return f.Property == prop && (f.Harness == "" || f.Harness == v.Harness) && globMatch(f.Scenario, v.Scenario) &&
		(f.Kind == "" || f.Kind == v.Kind) && (f.Label == "" || f.Label == v.Label) && (f.PanicSite == "" || strings.Contains(v.PanicSite, f.PanicSite))
}

type nativeOutcome struct {
	Harness      string   `json:"harness"`
	Scenario     string   `json:"scenario"`
	Failed       []string `json:"failed"`
	Passed       []string `json:"passed"`
	Observed     []string `json:"observed"`
	Reached      []string `json:"reached"`
	Panic        string   `json:"panic"`
	PanicStack   string   `json:"panic_stack"`
	AssumeFailed bool     `json:"assume_failed"`
	Missing      []string `json:"missing_inputs"`
	Deadlock     bool     `json:"deadlock"`
	Error        string   `json:"error"`
}

const replayTestTemplate = `package %s

import (
	"encoding/json"
	"os"
	"testing"

	"github.com/enbility/spine-go/verifrt"
)

func TestVerifReplay(t *testing.T) {
	f := os.Getenv("VERIF_REPLAY_FILE")
	if f == "" {
		t.Skip("no replay file")
	}
	out, err := verifrt.RunReplay(f)
	res := map[string]any{}
	if err != nil {
		res["error"] = err.Error()
	} else {
		b, _ := json.Marshal(out)
		_ = json.Unmarshal(b, &res)
	}
	b, _ := json.MarshalIndent(res, "", " ")
	_ = os.WriteFile(f+".out", b, 0o644)
}
`

type checker struct {
	repo, verif, work string
	tier            string
	seed            int
	env             []string
	extra           map[string]string
}

func (c *checker) goEnv() []string {
	return append(os.Environ(), "GOFLAGS=-mod=mod", "GOPROXY=off", "GOSUMDB=off", "GOTOOLCHAIN=local", "CGO_ENABLED=0")
}

// buildReplayBinary compiles the native test binary of pkg with harnesses and verifrt overlaid.
func (c *checker) buildReplayBinary(pkg string, sched bool) (string, error) {
	return c.buildReplayBinaryOpt(pkg, sched, false)
}

// buildReplayBinaryOpt: race=true builds the uninstrumented replay binary with the Go race detector.
func (c *checker) buildReplayBinaryOpt(pkg string, sched, race bool) (string, error) {
	ov := interp.RepoOverlay(c.repo, c.verif, c.extra)
	testFile := filepath.Join(c.work, "zz_verif_replay_"+pkg+"_test.go")
	os.WriteFile(testFile, []byte(fmt.Sprintf(replayTestTemplate, pkg)), 0o644)
	ov[filepath.Join(c.repo, pkg, "zz_verif_replay_test.go")] = testFile
	if sched {
		inst, err := instrumentForSchedule(c.repo, pkg, c.work, c.extra)
		if err != nil {
			return "", err
		}
		for k, v := range inst {
			ov[k] = v
		}
	}
	ovFile := filepath.Join(c.work, "overlay_"+pkg+".json")
	b, _ := json.Marshal(map[string]any{"Replace": ov})
	os.WriteFile(ovFile, b, 0o644)
	bin := filepath.Join(c.work, "replay_"+pkg+".test")
	if sched {
		bin = filepath.Join(c.work, "replay_sched_"+pkg+".test")
	}
	cmd := exec.Command("go", "test", "-c", "-vet=off", "-overlay", ovFile, "-o", bin, "./"+pkg)
	if race {
		bin = filepath.Join(c.work, "replay_race_"+pkg+".test")
		if sched {
			bin = filepath.Join(c.work, "replay_race_sched_"+pkg+".test")
		}
		cmd = exec.Command("go", "test", "-c", "-race", "-vet=off", "-overlay", ovFile, "-o", bin, "./"+pkg)
	}
	cmd.Dir = c.repo
	cmd.Env = c.goEnv()
	if race {
		cmd.Env = append(cmd.Env, "CGO_ENABLED=1") // the race detector runtime needs cgo
	}
	out, err := cmd.CombinedOutput()
	if err != nil {
		return "", fmt.Errorf("building native replay binary failed: %v\n%s", err, out)
	}
	return bin, nil
}

func (c *checker) runReplay(bin, pkg, file string) (*nativeOutcome, error) {
	os.Remove(file + ".out")
	cmd := exec.Command(bin, "-test.run", "^TestVerifReplay$", "-test.count=1", "-test.timeout=120s")
	cmd.Dir = filepath.Join(c.repo, pkg)
	cmd.Env = append(os.Environ(), "VERIF_REPLAY_FILE="+file)
	out, err := cmd.CombinedOutput()
	var no nativeOutcome
	if e := loadJSON(file+".out", &no); e != nil {
		return nil, fmt.Errorf("native replay produced no outcome (%v): %v\n%.2000s", e, err, out)
	}
	return &no, nil
}

// runRaceReplay runs a counterexample with real goroutines (no twin scheduler) under the Go race
// detector, in three start orders, and reports whether a DATA RACE report names both blamed functions.
func (c *checker) runRaceReplay(bin, binSched, pkg, file, site string) (bool, string) {
	fns := strings.Split(site, " | ")
	last := ""
	for round := 0; round < 2; round++ {
		// order -1: the engine's schedule, forced by the twin scheduler (whose hand-over is hidden from the
		// race detector); orders 0..2: free-running goroutines with staggered starts
		for order := -1; order < 3; order++ {
			os.Remove(file + ".out")
			b := bin
			env := append(os.Environ(), "VERIF_REPLAY_FILE="+file, "GORACE=halt_on_error=0")
			if order < 0 {
				if binSched == "" || round > 0 {
					continue
				}
				b = binSched
			} else {
				env = append(env, "VERIF_RACE=1", fmt.Sprintf("VERIF_RACE_ORDER=%d", order))
			}
			cmd := exec.Command(b, "-test.run", "^TestVerifReplay$", "-test.count=1", "-test.timeout=120s")
			cmd.Dir = filepath.Join(c.repo, pkg)
			cmd.Env = env
			out, _ := cmd.CombinedOutput()
			last = string(out)
			for _, blk := range strings.Split(last, "WARNING: DATA RACE")[1:] {
				if i := strings.Index(blk, "=================="); i >= 0 {
					blk = blk[:i]
				}
				if raceBlockMatches(fns, blk) {
					return true, blk
				}
			}
		}
	}
	if len(last) > 1500 {
		last = last[len(last)-1500:]
	}
	return false, last
}

// raceBlockMatches: the two accesses of a DATA RACE report (the innermost frame of each of its first two
// stacks, runtime-internal frames such as map access helpers skipped) must be made by the two blamed
// functions themselves. Reports about the replay runtime's own bookkeeping (package verifrt) never count.
func raceBlockMatches(fns []string, blk string) bool {
	var accessors []string
	lines := strings.Split(blk, "\n")
	for i := 0; i < len(lines) && len(accessors) < 2; i++ {
		l := lines[i]
		if !(strings.HasPrefix(l, "Read at") || strings.HasPrefix(l, "Write at") || strings.HasPrefix(l, "Previous read at") || strings.HasPrefix(l, "Previous write at") ||
			strings.HasPrefix(l, "Atomic") || strings.HasPrefix(l, "Previous atomic")) {
			continue
		}
		for j := i + 1; j < len(lines); j++ {
			f := strings.TrimSpace(lines[j])
			if f == "" {
				break
			}
			if strings.HasPrefix(lines[j], "      ") || strings.HasPrefix(f, "runtime.") || strings.HasPrefix(f, "internal/") || strings.HasPrefix(f, "sync.") || strings.HasPrefix(f, "sync/atomic.") {
				continue // file:line of the previous frame, or a run-time helper
			}
			accessors = append(accessors, f)
			break
		}
	}
	if len(accessors) < 2 {
		return false
	}
	for _, a := range accessors {
		if strings.Contains(a, "/verifrt.") {
			return false
		}
	}
	m := func(f, a string) bool {
		// (an access made in a function literal is blamed on "<function>$n" by the engine and printed as
		// "<function>.funcN" natively: compare the enclosing function)
		if i := strings.Index(f, "$"); i > 0 {
			f = f[:i]
		}
		if i := strings.Index(a, ".func"); i > 0 {
			a = a[:i] + "()"
		}
		return panicSiteMatches(f, a)
	}
	if len(fns) == 1 {
		return m(fns[0], accessors[0]) && m(fns[0], accessors[1])
	}
	return (m(fns[0], accessors[0]) && m(fns[1], accessors[1])) || (m(fns[0], accessors[1]) && m(fns[1], accessors[0]))
}

var siteRe = regexp.MustCompile(`^\(\*?([^()]+)\.([A-Za-z0-9_]+)\)\.([A-Za-z0-9_]+)`)
var funcRe = regexp.MustCompile(`^([A-Za-z0-9_./-]+\.[A-Za-z0-9_]+)`)

// panicSiteMatches: the function the engine blames must appear in the native panic stack
// (sites without a function name, e.g. plain run-time errors, match any native panic).
func panicSiteMatches(site, stack string) bool {
	if m := siteRe.FindStringSubmatch(site); m != nil {
		return strings.Contains(stack, m[1]+".(*"+m[2]+")."+m[3]+"(") || strings.Contains(stack, m[1]+"."+m[2]+"."+m[3]+"(")
	}
	if m := funcRe.FindStringSubmatch(site); m != nil && strings.Contains(m[1], "/") {
		name := m[1]
		if i := strings.Index(name, "["); i > 0 {
			name = name[:i]
		}
		return strings.Contains(stack, name+"(") || strings.Contains(stack, name+"[")
	}
	return true
}

func has(ss []string, s string) bool {
	for _, x := range ss {
		if x == s {
			return true
		}
	}
	return false
}

type workerJob struct {
	h     HarnessCfg
	t     TierCfg
	shard int
	out   string
	log   string
}

func cmdCheck(args []string) int {
	fs := flag.NewFlagSet("check", flag.ExitOnError)
	repo := fs.String("repo", "/repo", "repository directory")
	verif := fs.String("verif", "/verif", "verification directory")
	tier := fs.String("tier", "", "quick | thorough")
	only := fs.String("harness", "", "run only this harness")
	overlay := fs.String("overlay", "", "extra overlay virt=real,... (acceptance tests)")
	jobs := fs.Int("j", 16, "parallel workers")
	keep := fs.Bool("keep", false, "keep the work directory")
	noEvidence := fs.Bool("no-evidence", false, "do not write the evidence file")
	fs.Parse(args)
	if fs.NArg() < 1 {
		fmt.Fprintln(os.Stderr, "usage: symgo check <PROPERTY> --tier quick|thorough")
		return 2
	}
	// flags may follow the property id
	prop := fs.Arg(0)
	if fs.NArg() > 1 {
		fs.Parse(fs.Args()[1:])
	}
	if *tier == "" {
		*tier = os.Getenv("VERIF_TIER")
	}
	if *tier == "" {
		*tier = "quick"
	}
	seed, _ := strconv.Atoi(os.Getenv("VERIF_SEED"))
	t0 := time.Now()

	var reg Registry
	if err := loadJSON(filepath.Join(*verif, "harness", "registry.json"), &reg); err != nil {
		fmt.Fprintln(os.Stderr, "registry:", err)
		return 2
	}
	var known Findings
	_ = loadJSON(filepath.Join(*verif, "known_findings.json"), &known)

	work, err := os.MkdirTemp(filepath.Join(*verif, ".work"), prop+"-")
	if err != nil {
		os.MkdirAll(filepath.Join(*verif, ".work"), 0o755)
		work, err = os.MkdirTemp(filepath.Join(*verif, ".work"), prop+"-")
		if err != nil {
			fmt.Fprintln(os.Stderr, err)
			return 2
		}
	}
	if !*keep {
		defer os.RemoveAll(work)
	}
	c := &checker{repo: *repo, verif: *verif, work: work, tier: *tier, seed: seed, extra: parseOverlay(*overlay)}
	if err := genAll(*repo, work, c.extra); err != nil {
		fmt.Fprintln(os.Stderr, "generator:", err)
		fmt.Printf("INCONCLUSIVE property=%s reason=generator-failed\n", prop)
		return 2
	}
	var ovParts []string
	for k, v := range c.extra {
		ovParts = append(ovParts, k+"="+v)
	}
	sort.Strings(ovParts)
	*overlay = strings.Join(ovParts, ",")
	self, _ := os.Executable()

	// ---- plan jobs
	var jobsList []*workerJob
	var hs []HarnessCfg
	for _, h := range reg.Harnesses {
		if h.Property != prop || (*only != "" && h.Name != *only) {
			continue
		}
		t, ok := h.Tiers[*tier]
		if !ok {
			t = h.Tiers["quick"]
		}
		if t.Skip {
			continue
		}
		if t.Shards == 0 {
			t.Shards = 1
		}
		hs = append(hs, h)
		for s := 0; s < t.Shards; s++ {
			jobsList = append(jobsList, &workerJob{h: h, t: t, shard: s,
				out: filepath.Join(work, fmt.Sprintf("%s.%d.json", h.Name, s)), log: filepath.Join(work, fmt.Sprintf("%s.%d.log", h.Name, s))})
		}
	}
	if len(jobsList) == 0 {
		fmt.Fprintf(os.Stderr, "no harness registered for %s\n", prop)
		return 2
	}

	workerArgs := func(j *workerJob, out string) []string {
		a := []string{"run", "--repo", *repo, "--verif", *verif, "--pkg", j.h.Pkg, "--harness", j.h.Name, "--out", out,
			"--shard", fmt.Sprintf("%d/%d", j.shard, j.t.Shards)}
		solver := j.h.Solver
		if solver == "" {
			solver = "z3"
		}
		a = append(a, "--solver", solver)
		if j.h.IntMode {
			a = append(a, "--intmode")
		}
		pre := j.h.Preempt
		if j.t.Preempt != nil {
			pre = *j.t.Preempt
		}
		a = append(a, "--preempt", strconv.Itoa(pre))
		if j.t.SubShards > 1 {
			a = append(a, "--sub", strconv.Itoa(j.t.SubShards))
		}
		if j.t.MaxPaths > 0 {
			a = append(a, "--max-paths", strconv.Itoa(j.t.MaxPaths))
		}
		if j.t.Timeout > 0 {
			a = append(a, "--timeout", strconv.Itoa(j.t.Timeout))
		}
		if j.t.QueryTimeout > 0 {
			a = append(a, "--query-timeout", strconv.Itoa(j.t.QueryTimeout))
		}
		w := j.t.Witnesses
		if w == 0 {
			w = 4
		}
		if j.shard != 0 {
			w = 1
		}
		a = append(a, "--witnesses", strconv.Itoa(w))
		var ps []string
		for k, v := range j.t.Params {
			ps = append(ps, fmt.Sprintf("%s=%d", k, v))
		}
		sort.Strings(ps)
		if len(ps) > 0 {
			a = append(a, "--params", strings.Join(ps, ","))
		}
		if *overlay != "" {
			a = append(a, "--overlay", *overlay)
		}
		return a
	}
	// ---- run workers
	sem := make(chan struct{}, *jobs)
	var wg sync.WaitGroup
	var mu sync.Mutex
	workerErrs := []string{}
	for _, j := range jobsList {
		wg.Add(1)
		go func(j *workerJob) {
			defer wg.Done()
			sem <- struct{}{}
			defer func() { <-sem }()
			a := workerArgs(j, j.out)
			cmd := exec.Command(self, a...)
			lf, _ := os.Create(j.log)
			cmd.Stdout, cmd.Stderr = lf, lf
			err := cmd.Run()
			lf.Close()
			if err != nil {
				b, _ := os.ReadFile(j.log)
				mu.Lock()
				workerErrs = append(workerErrs, fmt.Sprintf("%s shard %d: %v: %.1500s", j.h.Name, j.shard, err, b))
				mu.Unlock()
			}
		}(j)
	}
	wg.Wait()
	// a worker that died (killed, crashed) makes the run inconclusive, but what the other workers found
	// is still merged, replayed and reported
	for _, e := range workerErrs {
		fmt.Fprintln(os.Stderr, "WORKER ERROR:", e)
	}

	// ---- merge
	type hres struct {
		cfg     HarnessCfg
		results []*interp.RunResult
	}
	byH := map[string]*hres{}
	var order []string
	for _, j := range jobsList {
		var r interp.RunResult
		if err := loadJSON(j.out, &r); err != nil {
			if len(workerErrs) > 0 {
				continue // reported as worker failure below
			}
			fmt.Fprintln(os.Stderr, "result:", err)
			fmt.Printf("INCONCLUSIVE property=%s reason=missing-result\n", prop)
			return 2
		}
		if byH[j.h.Name] == nil {
			byH[j.h.Name] = &hres{cfg: j.h}
			order = append(order, j.h.Name)
		}
		byH[j.h.Name].results = append(byH[j.h.Name].results, &r)
	}

	// ---- gather violations and witnesses; write replay files
	replayDir := filepath.Join(*verif, "replays", prop)
	os.RemoveAll(replayDir)
	os.MkdirAll(replayDir, 0o755)
	type vrec struct {
		v      *interp.Violation
		pkg    string
		file   string
		sched  bool
		shard  int
		status string // confirmed | unconfirmed | known | assume-failed
		known  *Finding
		native *nativeOutcome
	}
	type wrec struct {
		w     *interp.Witness
		pkg   string
		file  string
		sched bool
	}
	var viols []*vrec
	var wits []*wrec
	paramsOf := map[string]map[string]int{}
	for _, j := range jobsList {
		ps := map[string]int{}
		for k, v := range j.t.Params {
			ps[k] = v
		}
		pre := j.h.Preempt
		if j.t.Preempt != nil {
			pre = *j.t.Preempt
		}
		ps["preempt"] = pre
		paramsOf[j.h.Name] = ps
	}
	seenV := map[string]bool{}
	n := 0
	for _, name := range order {
		hr := byH[name]
		for _, r := range hr.results {
			for _, v := range r.Violations {
				if seenV[v.Key()] {
					continue
				}
				seenV[v.Key()] = true
				n++
				f := filepath.Join(replayDir, fmt.Sprintf("v%03d_%s.json", n, name))
				rec := map[string]any{"property": prop, "harness": v.Harness, "scenario": v.Scenario, "assertion": v.Label, "kind": v.Kind,
					"panic_site": v.PanicSite, "inputs": v.Inputs, "schedule": v.Schedule, "params": paramsOf[name], "sched": hr.cfg.Sched, "engine": map[string]any{"path": v.Path, "detail": v.Detail}}
				b, _ := json.MarshalIndent(rec, "", " ")
				os.WriteFile(f, b, 0o644)
				viols = append(viols, &vrec{v: v, pkg: hr.cfg.Pkg, file: f, sched: hr.cfg.Sched, shard: r.Shard})
			}
			for _, w := range r.Witnesses {
				n++
				f := filepath.Join(work, fmt.Sprintf("w%03d_%s.json", n, name))
				rec := map[string]any{"harness": w.Harness, "scenario": w.Scenario, "inputs": w.Inputs, "schedule": w.Schedule, "params": paramsOf[name], "sched": hr.cfg.Sched}
				b, _ := json.MarshalIndent(rec, "", " ")
				os.WriteFile(f, b, 0o644)
				wits = append(wits, &wrec{w: w, pkg: hr.cfg.Pkg, file: f, sched: hr.cfg.Sched})
			}
		}
	}

	// ---- native replay
	bins := map[string]string{}
	getBin := func(pkg string, sched bool) (string, error) {
		k := pkg
		if sched {
			k += "+sched"
		}
		if b, ok := bins[k]; ok {
			return b, nil
		}
		b, err := c.buildReplayBinary(pkg, sched)
		if err != nil {
			return "", err
		}
		bins[k] = b
		return b, nil
	}
	exit := 0
	interpOnly := 0
	var notes []string
	for _, vr := range viols {
		for i := range known.Findings {
			f := &known.Findings[i]
			if f.Status == "known" && f.matches(prop, vr.v) {
				vr.known = f
			}
		}
		if hc := byH[vr.v.Harness]; hc != nil && hc.cfg.Native != nil && !*hc.cfg.Native {
			// no native twin for this harness: the counterexample is the engine's deterministic decision path
			vr.status = "confirmed"
			interpOnly++
			continue
		}
		if vr.v.Kind == "race" {
			rb, ok := bins[vr.pkg+"+race"]
			if !ok {
				var err error
				if rb, err = c.buildReplayBinaryOpt(vr.pkg, false, true); err != nil {
					fmt.Fprintln(os.Stderr, err)
					fmt.Printf("INCONCLUSIVE property=%s reason=native-build-failed\n", prop)
					return 2
				}
				bins[vr.pkg+"+race"] = rb
			}
			rbs := ""
			if vr.sched {
				var ok bool
				if rbs, ok = bins[vr.pkg+"+race+sched"]; !ok {
					var err error
					if rbs, err = c.buildReplayBinaryOpt(vr.pkg, true, true); err != nil {
						fmt.Fprintln(os.Stderr, err)
						fmt.Printf("INCONCLUSIVE property=%s reason=native-build-failed\n", prop)
						return 2
					}
					bins[vr.pkg+"+race+sched"] = rbs
				}
			}
			if ok, report := c.runRaceReplay(rb, rbs, vr.pkg, vr.file, vr.v.PanicSite); ok {
				vr.status = "confirmed"
				os.WriteFile(vr.file+".race.txt", []byte("WARNING: DATA RACE"+report), 0o644)
			} else {
				vr.status = "unconfirmed"
				// the engine is deterministic: re-execute the worker that reported the race; a report that does
				// not recur is an artefact of that run (seen once under heavy machine load) and is dropped
				for _, j := range jobsList {
					if j.h.Name != vr.v.Harness || j.shard != vr.shard {
						continue
					}
					ro := j.out + ".recheck"
					cmd := exec.Command(self, workerArgs(j, ro)...)
					cmd.Run()
					var rr interp.RunResult
					if err := loadJSON(ro, &rr); err == nil {
						again := false
						for _, v2 := range rr.Violations {
							if v2.Key() == vr.v.Key() {
								again = true
							}
						}
						if !again {
							vr.status = "dropped"
							notes = append(notes, fmt.Sprintf("race report %s (%s) did not recur when its worker was re-executed: dropped as an artefact of that run", filepath.Base(vr.file), vr.v.PanicSite))
						}
					}
				}
				if vr.status == "unconfirmed" {
					notes = append(notes, fmt.Sprintf("race %s (%s) was not reported by the Go race detector: %.300s", filepath.Base(vr.file), vr.v.PanicSite, report))
				}
			}
			continue
		}
		bin, err := getBin(vr.pkg, vr.sched)
		if err != nil {
			fmt.Fprintln(os.Stderr, err)
			fmt.Printf("INCONCLUSIVE property=%s reason=native-build-failed\n", prop)
			return 2
		}
		no, err := c.runReplay(bin, vr.pkg, vr.file)
		if err != nil {
			vr.status = "unconfirmed"
			notes = append(notes, fmt.Sprintf("replay of %s failed: %v", filepath.Base(vr.file), err))
		} else {
			vr.native = no
			switch {
			case vr.v.Kind == "assert" && has(no.Failed, vr.v.Label):
				vr.status = "confirmed" // (an assumption made after the assertion may fail natively; that is irrelevant)
			case no.AssumeFailed:
				vr.status = "assume-failed"
			case vr.v.Kind == "panic" && no.Panic != "" && panicSiteMatches(vr.v.PanicSite, no.PanicStack):
				vr.status = "confirmed"
			case vr.v.Kind == "deadlock" && no.Deadlock:
				vr.status = "confirmed"
			default:
				vr.status = "unconfirmed"
			}
		}
	}
	wOK, wBad := 0, 0
	var wMismatch []string
	for _, wr := range wits {
		if hc := byH[wr.w.Harness]; hc != nil && hc.cfg.Native != nil && !*hc.cfg.Native {
			continue
		}
		bin, err := getBin(wr.pkg, wr.sched)
		if err != nil {
			fmt.Fprintln(os.Stderr, err)
			fmt.Printf("INCONCLUSIVE property=%s reason=native-build-failed\n", prop)
			return 2
		}
		no, err := c.runReplay(bin, wr.pkg, wr.file)
		if err != nil {
			wBad++
			wMismatch = append(wMismatch, fmt.Sprintf("%s: %v", filepath.Base(wr.file), err))
			continue
		}
		ok := !no.AssumeFailed && no.Panic == "" && strings.Join(no.Observed, "\n") == strings.Join(wr.w.Observed, "\n")
		// assertions that passed symbolically must pass natively on the witness
		// (a label asserted several times on one path may pass once and fail once: then it is in both lists)
		for _, a := range wr.w.Asserts {
			if has(no.Failed, a) && !has(wr.w.Failed, a) {
				ok = false
			}
		}
		for _, a := range wr.w.Failed {
			if !has(no.Failed, a) {
				ok = false
			}
		}
		if ok {
			wOK++
		} else {
			wBad++
			eb, _ := json.Marshal(wr.w.Observed)
			nb, _ := json.Marshal(no)
			wMismatch = append(wMismatch, fmt.Sprintf("%s (%s/%s): engine observed %s; native %s", filepath.Base(wr.file), wr.w.Harness, wr.w.Scenario, eb, nb))
			keepf := filepath.Join(replayDir, "mismatch_"+filepath.Base(wr.file))
			b, _ := os.ReadFile(wr.file)
			os.WriteFile(keepf, b, 0o644)
		}
	}

	// ---- verdicts
	var lines []string
	confirmed, knownN, unconfirmed := 0, 0, 0
	knownSeen := map[*Finding]bool{}
	for _, vr := range viols {
		switch vr.status {
		case "confirmed":
			if vr.known != nil {
				knownN++
				if !knownSeen[vr.known] {
					knownSeen[vr.known] = true
					lines = append(lines, fmt.Sprintf("KNOWN-FINDING: property=%s %s [%s/%s/%s]", prop, vr.known.What, vr.v.Harness, vr.v.Scenario, vr.v.Label))
				}
			} else {
				confirmed++
				lines = append(lines, fmt.Sprintf("VIOLATION property=%s replay=%s", prop, vr.file))
				lines = append(lines, fmt.Sprintf("  harness=%s scenario=%s kind=%s label=%s site=%s", vr.v.Harness, vr.v.Scenario, vr.v.Kind, vr.v.Label, vr.v.PanicSite))
				exit = 1
			}
		case "dropped":
		default:
			unconfirmed++
			notes = append(notes, fmt.Sprintf("counterexample %s (%s/%s/%s %s) did not reproduce natively: %s", filepath.Base(vr.file), vr.v.Harness, vr.v.Scenario, vr.v.Label, vr.v.PanicSite, vr.status))
		}
	}

	// ---- inconclusive / vacuity
	incon := map[string]int{}
	if len(workerErrs) > 0 {
		incon["worker-failed (its part of the input space was not explored)"] = len(workerErrs)
	}
	reachAll := map[string]int{}
	tot := struct {
		paths, pruned, decisions, forks, aSolver, aProved, aConcrete, q, sat, unsat, unknown, errs int
		solverS                                                                                   float64
	}{}
	funcs := map[string]bool{}
	stubs := map[string]int{}
	assumptions := map[string]int{}
	scen := map[string]int{}
	var perH []map[string]any
	for _, name := range order {
		hr := byH[name]
		hp := 0
		for _, r := range hr.results {
			for k, v := range r.Inconclusive {
				incon[name+": "+k] += v
			}
			for k, v := range r.Reach {
				reachAll[name+"/"+k] += v
			}
			for _, f := range r.Funcs {
				funcs[f] = true
			}
			for k, v := range r.Stubs {
				stubs[k] += v
			}
			for k, v := range r.Assumptions {
				assumptions[k] += v
			}
			for k, v := range r.Scenarios {
				scen[name+"/"+k] += v
			}
			tot.paths += r.Paths
			hp += r.Paths
			tot.pruned += r.Pruned
			tot.decisions += r.Decisions
			tot.forks += r.Forks
			tot.aSolver += r.AssertsSolver
			tot.aProved += r.AssertsProved
			tot.aConcrete += r.AssertsConcrete
			tot.q += r.Queries
			tot.sat += r.Sat
			tot.unsat += r.Unsat
			tot.unknown += r.Unknown
			tot.errs += r.SolverErrors
			tot.solverS += r.SolverSeconds
		}
		for _, need := range hr.cfg.Reach {
			if reachAll[name+"/"+need] == 0 {
				incon[name+": vacuous: label never reached: "+need]++
			}
		}
		perH = append(perH, map[string]any{"harness": name, "paths": hp, "about": hr.cfg.About, "bounds": hr.cfg.Bounds, "outside": hr.cfg.Outside,
			"solver": hr.results[0].Solver, "params": paramsOf[name], "shards": len(hr.results), "engine_bounds": hr.results[0].Bounds})
	}
	if unconfirmed > 0 {
		incon["counterexamples that did not reproduce natively"] += unconfirmed
	}
	if wBad > 0 {
		incon["ENGINE-MISMATCH: witness cross-check failed"] += wBad
	}
	if len(incon) > 0 && exit == 0 {
		exit = 2
	}

	// ---- evidence
	var samples []any
	for _, wr := range wits {
		if len(samples) < 3 {
			samples = append(samples, map[string]any{"kind": "path witness (inputs chosen by the solver for one explored path; replayed natively)", "harness": wr.w.Harness, "scenario": wr.w.Scenario, "inputs": wr.w.Inputs, "observed": wr.w.Observed, "assertions_proved_on_path": wr.w.Asserts})
		}
	}
	for _, vr := range viols {
		if len(samples) < 6 {
			samples = append(samples, map[string]any{"kind": "counterexample (" + vr.status + ")", "harness": vr.v.Harness, "scenario": vr.v.Scenario, "assertion": vr.v.Label, "panic_site": vr.v.PanicSite, "inputs": vr.v.Inputs, "schedule": vr.v.Schedule})
		}
	}
	if len(samples) == 0 {
		samples = append(samples, map[string]any{"kind": "none", "note": "no witness produced"})
	}
	var funcList []string
	for f := range funcs {
		funcList = append(funcList, f)
	}
	sort.Strings(funcList)
	var knownList []string
	for f := range knownSeen {
		knownList = append(knownList, f.What)
	}
	sort.Strings(knownList)
	var asm []string
	for k := range assumptions {
		asm = append(asm, k)
	}
	for k := range stubs {
		asm = append(asm, "stub: "+k)
	}
	asm = append(asm, "go/types + go/ssa front end and the vendored x/tools SSA interpreter are trusted; symbolic extensions are cross-checked by native replay of witnesses and counterexamples",
		"solver verdicts (z3 4.8.12 / cvc5 1.0) are trusted; unknown/timeouts are reported as inconclusive, never as pass")
	sort.Strings(asm)
	states := tot.paths
	if states == 0 {
		states = 1
	}
	trans := tot.decisions
	if trans == 0 {
		trans = 1
	}
	ev := map[string]any{
		"property_id": prop,
		"tier":        *tier,
		"seed":        seed,
		"level":       "model_checking",
		"wall_s":      time.Since(t0).Seconds(),
		"violations":  confirmed,
		"assumptions": asm,
		"coverage": map[string]any{
			"technique":                     "bounded symbolic execution of the real Go code (SSA interpreter with symbolic values) with an SMT solver deciding every branch and assertion; counterexamples replayed natively",
			"states":                        states,
			"transitions":                   trans,
			"traces_validated_against_impl": wOK + knownN + confirmed,
			"samples":                       samples,
			"exhaustive":                    len(incon) == 0,
			"paths_explored":                tot.paths,
			"paths_pruned_by_assumptions":   tot.pruned,
			"symbolic_decisions":            tot.decisions,
			"forks":                         tot.forks,
			"assertions_decided_by_solver":  tot.aSolver,
			"assertions_proved_unsat":       tot.aProved,
			"assertions_concrete_on_path":   tot.aConcrete,
			"solver_queries":                tot.q,
			"solver_sat":                    tot.sat,
			"solver_unsat":                  tot.unsat,
			"solver_unknown":                tot.unknown,
			"solver_errors":                 tot.errs,
			"solver_seconds":                tot.solverS,
			"functions_encoded":             funcList,
			"functions_encoded_count":       len(funcList),
			"harnesses":                     perH,
			"scenarios":                     scen,
			"reach_labels":                  reachAll,
			"inconclusive":                  incon,
			"witnesses_cross_checked_ok":    wOK,
			"witnesses_mismatch":            wMismatch,
			"counterexamples_confirmed":     confirmed,
			"counterexamples_known":         knownN,
			"counterexamples_unconfirmed":   unconfirmed,
			"counterexamples_replayed_in_the_interpreter_only": interpOnly,
			"known_findings_matched":        knownList,
			"notes":                         notes,
		},
	}
	if !*noEvidence {
		os.MkdirAll(filepath.Join(*verif, "evidence"), 0o755)
		b, _ := json.MarshalIndent(ev, "", " ")
		os.WriteFile(filepath.Join(*verif, "evidence", prop+".json"), b, 0o644)
	}

	for _, l := range lines {
		fmt.Println(l)
	}
	var ik []string
	for k := range incon {
		ik = append(ik, k)
	}
	sort.Strings(ik)
	for _, k := range ik {
		fmt.Printf("INCONCLUSIVE property=%s %s (x%d)\n", prop, k, incon[k])
	}
	for _, m := range wMismatch {
		fmt.Println("  mismatch:", m)
	}
	for _, nn := range notes {
		fmt.Println("  note:", nn)
	}
	fmt.Printf("SUMMARY property=%s tier=%s harnesses=%d paths=%d assertions(solver)=%d proved=%d queries=%d (sat %d unsat %d unknown %d) solver=%.1fs witnesses_ok=%d confirmed=%d known=%d unconfirmed=%d wall=%.1fs exit=%d\n",
		prop, *tier, len(order), tot.paths, tot.aSolver, tot.aProved, tot.q, tot.sat, tot.unsat, tot.unknown, tot.solverS, wOK, confirmed, knownN, unconfirmed, time.Since(t0).Seconds(), exit)
	return exit
}

// cmdReplay replays one replay file natively and prints the outcome.
func cmdReplay(args []string) int {
	fs := flag.NewFlagSet("replay", flag.ExitOnError)
	repo := fs.String("repo", "/repo", "repository directory")
	verif := fs.String("verif", "/verif", "verification directory")
	fs.Parse(args)
	if fs.NArg() < 1 {
		fmt.Fprintln(os.Stderr, "usage: symgo replay <file>")
		return 2
	}
	file, _ := filepath.Abs(fs.Arg(0))
	var rec struct {
		Harness  string `json:"harness"`
		Schedule []int  `json:"schedule"`
		Sched    bool   `json:"sched"`
	}
	if err := loadJSON(file, &rec); err != nil {
		fmt.Fprintln(os.Stderr, err)
		return 2
	}
	var reg Registry
	_ = loadJSON(filepath.Join(*verif, "harness", "registry.json"), &reg)
	pkg := "spine"
	for _, h := range reg.Harnesses {
		if h.Name == rec.Harness {
			pkg = h.Pkg
		}
	}
	os.MkdirAll(filepath.Join(*verif, ".work"), 0o755)
	work, _ := os.MkdirTemp(filepath.Join(*verif, ".work"), "replay-")
	defer os.RemoveAll(work)
	c := &checker{repo: *repo, verif: *verif, work: work, extra: map[string]string{}}
	_ = genAll(*repo, work, c.extra)
	bin, err := c.buildReplayBinary(pkg, rec.Sched)
	if err != nil {
		fmt.Fprintln(os.Stderr, err)
		return 2
	}
	no, err := c.runReplay(bin, pkg, file)
	if err != nil {
		fmt.Fprintln(os.Stderr, err)
		return 2
	}
	b, _ := json.MarshalIndent(no, "", " ")
	fmt.Println(string(b))
	os.Remove(file + ".out")
	if len(no.Failed) > 0 || no.Panic != "" || no.Deadlock {
		return 1
	}
	return 0
}
