//go:build race

package verifrt

import "runtime"

func raceDisable() { runtime.RaceDisable() }
func raceEnable()  { runtime.RaceEnable() }
