package verifrt

import (
	"fmt"
	"time"
)

var nowCount int

// Now replaces time.Now() in the instrumented replay build: the k-th reading is the
// input "$now<k>" (Unix nanoseconds) of the replay file, the real clock otherwise.
func Now() time.Time {
	st.mu.Lock()
	nowCount++
	k := nowCount
	st.mu.Unlock()
	if v, ok := input(fmt.Sprintf("$now%d", k)); ok {
		var ns int64
		fmt.Sscan(v, &ns)
		return time.Unix(0, ns)
	}
	return time.Now()
}

// ClockReading returns the k-th clock reading taken by the code under test.
func ClockReading(k int) int64 { return I64(fmt.Sprintf("$now%d", k)) }
