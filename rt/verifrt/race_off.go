//go:build !race

package verifrt

func raceDisable() {}
func raceEnable()  {}
