// Package verifrt is the harness runtime of the verification machinery in
// /verif. It is never part of the repository: it is overlaid as
// /repo/verifrt when a harness is loaded by the symbolic engine (which
// intercepts every function below by name) or compiled natively for replay
// (where the functions below read their values from a replay file).
package verifrt

import (
	"encoding/json"
	"fmt"
	"math"
	"os"
	"reflect"
	"sort"
	"strconv"
	"sync"
)

// Spec bounds what Fill generates.
type Spec struct {
	MaxLen     int      // maximum slice length (0 = default 2, -1 = always empty)
	Depth      int      // maximum nesting depth of structs behind pointers/slices (0 = default 4)
	Only       []string // if set: only these fields of the top-level struct are filled
	Skip       []string // field names / pointed-to type names never filled
	PresentAll bool     // pointers are always present (no maybe-nil)
	NoStrings  bool     // strings stay empty
	MaxUint    uint64   // upper bound for integers (0 = none)
}

// Replay is one recorded counterexample or witness.
type Replay struct {
	Harness  string            `json:"harness"`
	Scenario string            `json:"scenario"`
	Inputs   map[string]string `json:"inputs"`
	Schedule []int             `json:"schedule"`
	Params   map[string]int    `json:"params"`
	Sched    bool              `json:"sched"`
}

// Outcome is what a native run of a harness produced.
type Outcome struct {
	Harness      string          `json:"harness"`
	Scenario     string          `json:"scenario"`
	Failed       []string        `json:"failed"`
	Passed       []string        `json:"passed"`
	Observed     []string        `json:"observed"`
	Reached      []string        `json:"reached"`
	Panic        string          `json:"panic,omitempty"`
	PanicStack   string          `json:"panic_stack,omitempty"`
	AssumeFailed bool            `json:"assume_failed"`
	Missing      []string        `json:"missing_inputs,omitempty"`
	Deadlock     bool            `json:"deadlock"`
	SchedUsed    int             `json:"sched_used"`
	missing      map[string]bool
}

type state struct {
	mu  sync.Mutex
	rep *Replay
	out *Outcome
}

var st state

var harnesses = map[string]func(){}

// Register makes a harness callable by name from the native replay driver.
func Register(name string, fn func()) { harnesses[name] = fn }

func Harnesses() []string {
	var out []string
	for k := range harnesses {
		out = append(out, k)
	}
	sort.Strings(out)
	return out
}

type assumeFailed struct{}

// RunReplay executes the harness named in the file natively and returns the outcome.
func RunReplay(path string) (*Outcome, error) {
	b, err := os.ReadFile(path)
	if err != nil {
		return nil, err
	}
	var r Replay
	if err := json.Unmarshal(b, &r); err != nil {
		return nil, err
	}
	fn := harnesses[r.Harness]
	if fn == nil {
		return nil, fmt.Errorf("unknown harness %q", r.Harness)
	}
	out := &Outcome{Harness: r.Harness, missing: map[string]bool{}}
	st.mu.Lock()
	st.rep, st.out = &r, out
	st.mu.Unlock()
	runHarness(fn, &r, out)
	for k := range out.missing {
		out.Missing = append(out.Missing, k)
	}
	sort.Strings(out.Missing)
	return out, nil
}

func input(name string) (string, bool) {
	st.mu.Lock()
	defer st.mu.Unlock()
	if st.rep == nil {
		return "", false
	}
	v, ok := st.rep.Inputs[name]
	if !ok && st.out != nil {
		st.out.missing[name] = true
	}
	return v, ok
}

func InEngine() bool { return false }

func Bool(name string) bool {
	v, _ := input(name)
	return v == "true"
}

func U64(name string) uint64 {
	v, ok := input(name)
	if !ok {
		return 0
	}
	n, _ := strconv.ParseUint(v, 10, 64)
	return n
}

func Uint(name string) uint { return uint(U64(name)) }

func I64(name string) int64 {
	v, ok := input(name)
	if !ok {
		return 0
	}
	if n, err := strconv.ParseInt(v, 10, 64); err == nil {
		return n
	}
	u, _ := strconv.ParseUint(v, 10, 64) // two's complement rendering of a signed bit-vector
	return int64(u)
}

func F64(name string) float64 {
	v, ok := input(name)
	if !ok {
		return 0
	}
	bits, _ := strconv.ParseUint(v, 0, 64)
	return math.Float64frombits(bits)
}

func IntRange(name string, lo, hi int) int {
	if lo == hi {
		return lo
	}
	n := int(I64(name))
	if n < lo {
		n = lo
	}
	if n > hi {
		n = hi
	}
	return n
}

func Choice(name string, n int) int { return IntRange(name, 0, n-1) }

func Str(name string, domain ...string) string {
	v, ok := input(name)
	if !ok {
		if len(domain) > 0 {
			return domain[0]
		}
		return ""
	}
	return v
}

func Opt[T any](name string, p *T) *T {
	if p == nil {
		return nil
	}
	if Bool(name + "?") {
		return p
	}
	return nil
}

func contains(ss []string, s string) bool {
	for _, x := range ss {
		if x == s {
			return true
		}
	}
	return false
}

// Fill stores an arbitrary value of *ptr's type, read from the replay inputs.
func Fill(name string, ptr any, spec Spec) {
	if spec.MaxLen == 0 {
		spec.MaxLen = 2
	}
	if spec.MaxLen < 0 {
		spec.MaxLen = 0
	}
	if spec.Depth == 0 {
		spec.Depth = 4
	}
	v := reflect.ValueOf(ptr).Elem()
	fill(name, v, &spec, 0, true)
}

func fill(name string, v reflect.Value, sp *Spec, depth int, top bool) {
	switch v.Kind() {
	case reflect.Bool:
		v.SetBool(Bool(name))
	case reflect.Int, reflect.Int8, reflect.Int16, reflect.Int32, reflect.Int64:
		v.SetInt(I64(name))
	case reflect.Uint, reflect.Uint8, reflect.Uint16, reflect.Uint32, reflect.Uint64, reflect.Uintptr:
		v.SetUint(U64(name))
	case reflect.Float64:
		v.SetFloat(F64(name))
	case reflect.String:
		if !sp.NoStrings {
			v.SetString(Str(name))
		}
	case reflect.Ptr:
		if depth > sp.Depth {
			return
		}
		et := v.Type().Elem()
		if et.Name() != "" && contains(sp.Skip, et.Name()) {
			return
		}
		d := depth
		if et.Kind() == reflect.Struct {
			d = depth + 1
		}
		if sp.PresentAll || Bool(name+"?") {
			nv := reflect.New(et)
			fill(name, nv.Elem(), sp, d, top)
			v.Set(nv)
		}
	case reflect.Struct:
		t := v.Type()
		for i := 0; i < t.NumField(); i++ {
			f := t.Field(i)
			if !f.IsExported() || contains(sp.Skip, f.Name) || (top && len(sp.Only) > 0 && !contains(sp.Only, f.Name)) {
				continue
			}
			fill(name+"."+f.Name, v.Field(i), sp, depth, false)
		}
	case reflect.Slice:
		if depth > sp.Depth {
			return
		}
		et := v.Type().Elem()
		if et.Kind() == reflect.Uint8 {
			return
		}
		n := IntRange(name+"#", 0, sp.MaxLen)
		if n == 0 {
			return
		}
		d := depth
		if et.Kind() == reflect.Struct {
			d = depth + 1
		}
		s := reflect.MakeSlice(v.Type(), n, n)
		for i := 0; i < n; i++ {
			fill(fmt.Sprintf("%s[%d]", name, i), s.Index(i), sp, d, top)
		}
		v.Set(s)
	case reflect.Array:
		for i := 0; i < v.Len(); i++ {
			fill(fmt.Sprintf("%s[%d]", name, i), v.Index(i), sp, depth, false)
		}
	}
}

func Assume(c bool) {
	if !c {
		st.mu.Lock()
		if st.out != nil {
			st.out.AssumeFailed = true
		}
		st.mu.Unlock()
		panic(assumeFailed{})
	}
}

func Assert(label string, c bool) {
	st.mu.Lock()
	defer st.mu.Unlock()
	if st.out == nil {
		return
	}
	if c {
		st.out.Passed = append(st.out.Passed, label)
	} else {
		st.out.Failed = append(st.out.Failed, label)
	}
}

func Reach(label string) {
	st.mu.Lock()
	defer st.mu.Unlock()
	if st.out != nil {
		st.out.Reached = append(st.out.Reached, label)
	}
}

func Scenario(tag string) {
	st.mu.Lock()
	defer st.mu.Unlock()
	if st.out != nil {
		st.out.Scenario = tag
	}
}

func Note(string) {}

func All(cs ...bool) bool {
	for _, c := range cs {
		if !c {
			return false
		}
	}
	return true
}

func Any(cs ...bool) bool {
	for _, c := range cs {
		if c {
			return true
		}
	}
	return false
}

func Not(c bool) bool        { return !c }
func Implies(a, b bool) bool { return !a || b }
func Iff(a, b bool) bool     { return a == b }
func IteU64(c bool, a, b uint64) uint64 {
	if c {
		return a
	}
	return b
}
func IteInt(c bool, a, b int) int {
	if c {
		return a
	}
	return b
}
func Concrete(c bool) bool                { return c }
func ConcreteInt(v int, lo, hi int) int   { return v }
func DeepEq(a, b any) bool                { return reflect.DeepEqual(a, b) }
func SameStr(a, b string) bool            { return a == b }

func IsNil(v any) bool {
	if v == nil {
		return true
	}
	rv := reflect.ValueOf(v)
	switch rv.Kind() {
	case reflect.Ptr, reflect.Slice, reflect.Map, reflect.Interface, reflect.Func, reflect.Chan:
		return rv.IsNil()
	}
	return false
}

// Freeze returns a deep copy that shares no memory with v.
func Freeze(v any) any {
	if v == nil {
		return nil
	}
	return deepCopy(reflect.ValueOf(v), map[uintptr]reflect.Value{}).Interface()
}

func deepCopy(v reflect.Value, memo map[uintptr]reflect.Value) reflect.Value {
	switch v.Kind() {
	case reflect.Ptr:
		if v.IsNil() {
			return v
		}
		if c, ok := memo[v.Pointer()]; ok {
			return c
		}
		c := reflect.New(v.Type().Elem())
		memo[v.Pointer()] = c
		c.Elem().Set(deepCopy(v.Elem(), memo))
		return c
	case reflect.Struct:
		c := reflect.New(v.Type()).Elem()
		c.Set(v)
		for i := 0; i < v.NumField(); i++ {
			if c.Field(i).CanSet() {
				c.Field(i).Set(deepCopy(v.Field(i), memo))
			}
		}
		return c
	case reflect.Slice:
		if v.IsNil() {
			return v
		}
		c := reflect.MakeSlice(v.Type(), v.Len(), v.Len())
		for i := 0; i < v.Len(); i++ {
			c.Index(i).Set(deepCopy(v.Index(i), memo))
		}
		return c
	case reflect.Array:
		c := reflect.New(v.Type()).Elem()
		for i := 0; i < v.Len(); i++ {
			c.Index(i).Set(deepCopy(v.Index(i), memo))
		}
		return c
	case reflect.Interface:
		if v.IsNil() {
			return v
		}
		c := reflect.New(v.Type()).Elem()
		c.Set(deepCopy(v.Elem(), memo))
		return c
	case reflect.Map:
		if v.IsNil() {
			return v
		}
		c := reflect.MakeMapWithSize(v.Type(), v.Len())
		it := v.MapRange()
		for it.Next() {
			c.SetMapIndex(it.Key(), deepCopy(it.Value(), memo))
		}
		return c
	}
	return v
}

func Observe(name string, v any) {
	var s string
	switch x := v.(type) {
	case bool:
		s = strconv.FormatBool(x)
	case string:
		s = x
	case float64:
		s = fmt.Sprintf("0x%016x", math.Float64bits(x))
	default:
		rv := reflect.ValueOf(v)
		switch rv.Kind() {
		case reflect.Int, reflect.Int8, reflect.Int16, reflect.Int32, reflect.Int64:
			s = strconv.FormatInt(rv.Int(), 10)
		case reflect.Uint, reflect.Uint8, reflect.Uint16, reflect.Uint32, reflect.Uint64, reflect.Uintptr:
			s = strconv.FormatUint(rv.Uint(), 10)
		case reflect.String:
			s = rv.String()
		case reflect.Bool:
			s = strconv.FormatBool(rv.Bool())
		default:
			s = fmt.Sprintf("<%T>", v)
		}
	}
	st.mu.Lock()
	defer st.mu.Unlock()
	if st.out != nil {
		st.out.Observed = append(st.out.Observed, name+"="+s)
	}
}

// AssumeDecimals states that the shortest decimal rendering of v has exactly n
// fractional digits (n >= 5 meaning "five or more"). Natively it is checked.
func AssumeDecimals(v float64, n int) {
	s := strconv.FormatFloat(v, 'f', -1, 64)
	dec := 0
	for i := 0; i < len(s); i++ {
		if s[i] == '.' {
			dec = len(s) - i - 1
		}
	}
	if n >= 5 {
		Assume(dec >= 5)
	} else {
		Assume(dec == n)
	}
}

// Param returns a tier-dependent harness parameter (bounds), def if unset.
func Param(name string, def int) int {
	st.mu.Lock()
	defer st.mu.Unlock()
	if st.rep != nil {
		if v, ok := st.rep.Params[name]; ok {
			return v
		}
	}
	return def
}

func I32(name string) int32 { return int32(I64(name)) }

func ShardChoice(name string, n int) int { return Choice(name, n) }
