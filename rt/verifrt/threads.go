package verifrt

// Native twin of the engine's baton scheduler (engine/interp/sched.go): the
// same thread table, the same enabled-set computation, the same decision
// points. It is installed only by the instrumented replay build (the replay
// file says "sched": true); otherwise every entry point is a pass-through
// and the thread API falls back to plain goroutines.

import (
	"fmt"
	"os"
	"reflect"
	"runtime/debug"
	"strconv"
	"sync"
	"sync/atomic"
	"time"
)

const (
	stReady = iota
	stBlocked
	stDone
	stTimer
	stCancelled
	stWaitIdle
)

type thr struct {
	id      int
	wake    chan struct{}
	state   int
	waitMu  uintptr
	waitWr  bool
	held    int
	harness bool
	fn      func()
}

type muState struct {
	writer  *thr
	readers map[*thr]int
}

type sched struct {
	thr           []*thr
	cur           *thr
	mus           map[uintptr]*muState
	timers        map[*time.Timer]*thr
	killed        bool
	aborted       bool
	preempt       int
	preemptOn     bool
	unlockYield   bool
	onlyHolding   bool
	spawnedFIFO   bool
	timersAtYield bool
	decisions     []int
	pos           int
	idleTimers    bool
	deadlock      bool
	panicMsg      string
	panicStack    string
}

var S *sched

type schedAbort struct{}

func startSched(decisions []int, preempt int) *sched {
	s := &sched{mus: map[uintptr]*muState{}, timers: map[*time.Timer]*thr{}, decisions: decisions, preempt: preempt}
	main := &thr{id: 0, wake: make(chan struct{}), state: stReady}
	s.thr = []*thr{main}
	s.cur = main
	S = s
	return s
}

func (s *sched) decideN(n int) int {
	if n <= 1 {
		return 0
	}
	d := 0
	if s.pos < len(s.decisions) {
		d = s.decisions[s.pos]
	}
	s.pos++
	if d >= n {
		d = 0
	}
	return d
}

func (s *sched) spawn(fn func(), state int) *thr {
	t := &thr{id: len(s.thr), wake: make(chan struct{}), state: state, fn: fn}
	s.thr = append(s.thr, t)
	go func() {
		wakeRecv(t.wake)
		if s.killed {
			return
		}
		defer func() {
			if s.killed {
				return
			}
			if p := recover(); p != nil {
				if s.panicMsg == "" {
					s.panicMsg = fmt.Sprint(p)
					s.panicStack = string(debug.Stack())
				}
				t.state = stDone
				s.abortToMain()
				return
			}
			t.state = stDone
			s.handOver()
		}()
		t.fn()
	}()
	return t
}

func (s *sched) abortToMain() {
	s.aborted = true
	m := s.thr[0]
	if m.state == stDone {
		return
	}
	m.state = stReady
	s.cur = m
	wakeSend(m.wake)
}

func (s *sched) enabled(includeTimers bool) []*thr {
	var out []*thr
	for _, t := range s.thr {
		if t == s.cur {
			continue
		}
		if t.state == stReady || (includeTimers && t.state == stTimer) {
			out = append(out, t)
		}
	}
	return out
}

func (s *sched) pickNext() *thr {
	en := s.enabled(s.idleTimers)
	if len(en) == 0 {
		if m := s.thr[0]; m.state == stWaitIdle {
			return m
		}
		return nil
	}
	if s.spawnedFIFO {
		var hs []*thr
		for _, t := range en {
			if t.harness || t.state == stTimer {
				hs = append(hs, t)
			}
		}
		if len(hs) == 0 {
			return en[0]
		}
		en = hs
	}
	k := 0
	if len(en) > 1 {
		k = s.decideN(len(en))
	}
	return en[k]
}

func (s *sched) handOver() {
	next := s.pickNext()
	if next == nil {
		s.deadlock = true
		s.abortToMain()
		return
	}
	s.start(next)
}

func (s *sched) start(t *thr) {
	if t.state == stTimer || t.state == stWaitIdle {
		t.state = stReady
	}
	s.cur = t
	wakeSend(t.wake)
}

func (s *sched) switchTo(next *thr) {
	cur := s.cur
	s.start(next)
	wakeRecv(cur.wake)
	if s.killed {
		select {} // the run is over; park for good
	}
	if s.aborted && cur.id == 0 {
		panic(schedAbort{})
	}
}

func (s *sched) yield() {
	if s.preempt <= 0 || !s.preemptOn {
		return
	}
	en := s.enabled(s.idleTimers || s.timersAtYield)
	if len(en) == 0 {
		return
	}
	k := s.decideN(len(en) + 1)
	if k == 0 {
		return
	}
	s.preempt--
	s.switchTo(en[k-1])
}

func (s *sched) block() {
	next := s.pickNext()
	if next == nil {
		s.deadlock = true
		if s.cur.id == 0 {
			panic(schedAbort{})
		}
		s.abortToMain()
		wakeRecv(s.cur.wake)
		select {}
	}
	s.switchTo(next)
}

func (s *sched) mu(k uintptr) *muState {
	st := s.mus[k]
	if st == nil {
		st = &muState{readers: map[*thr]int{}}
		s.mus[k] = st
	}
	return st
}

func key(mu any) uintptr { return reflect.ValueOf(mu).Pointer() }

// ---- entry points used by the instrumented source

func BeforeLock(mu any, read bool) {
	s := S
	if s == nil {
		return
	}
	k := key(mu)
	if !s.onlyHolding || s.cur.held > 0 {
		s.yield()
	}
	st := s.mu(k)
	for {
		free := st.writer == nil
		if !read && free {
			for _, n := range st.readers {
				if n > 0 {
					free = false
				}
			}
		}
		if read && free {
			// a blocked Lock call excludes new readers (same rule as the engine)
			for _, t := range s.thr {
				if t != s.cur && t.state == stBlocked && t.waitMu == k && t.waitWr {
					free = false
				}
			}
		}
		if free {
			break
		}
		cur := s.cur
		cur.state, cur.waitMu, cur.waitWr = stBlocked, k, !read
		s.block()
	}
	if read {
		st.readers[s.cur]++
	} else {
		st.writer = s.cur
	}
	s.cur.held++
}

func AfterLock(mu any, read bool) {}

func AfterUnlock(mu any, read bool) {
	s := S
	if s == nil {
		return
	}
	k := key(mu)
	st := s.mu(k)
	if read {
		if st.readers[s.cur] > 0 {
			st.readers[s.cur]--
		} else {
			for t, n := range st.readers {
				if n > 0 {
					st.readers[t]--
					break
				}
			}
		}
	} else {
		st.writer = nil
	}
	for _, t := range s.thr {
		if t.state == stBlocked && t.waitMu == k {
			t.state, t.waitMu = stReady, 0
		}
	}
	if s.cur.held > 0 {
		s.cur.held--
	}
	if s.unlockYield && (!s.onlyHolding || s.cur.held > 0) {
		s.yield()
	}
}

func DeferredUnlock(mu any, unlock func(), read bool) {
	unlock()
	AfterUnlock(mu, read)
}

var bg sync.WaitGroup

// GoStmt replaces a `go f()` statement of the code under test.
func GoStmt(f func()) {
	s := S
	if s == nil {
		bg.Add(1)
		go func() {
			defer bg.Done()
			f()
		}()
		return
	}
	s.spawn(f, stReady)
	s.yield()
}

func AfterFunc(d time.Duration, f func()) *time.Timer {
	s := S
	if s == nil {
		return time.AfterFunc(d, f)
	}
	h := time.AfterFunc(1000*time.Hour, func() {})
	s.timers[h] = s.spawn(f, stTimer)
	s.yield()
	return h
}

// StopTimer replaces x.Stop(): timers created through AfterFunc are scheduler objects.
func StopTimer(x any) bool {
	if t, ok := x.(*time.Timer); ok {
		s := S
		if s == nil {
			return t.Stop()
		}
		if t == nil {
			panic("runtime error: invalid memory address or nil pointer dereference")
		}
		if th := s.timers[t]; th != nil {
			if th.state == stTimer {
				th.state = stCancelled
				return true
			}
			return false
		}
		return t.Stop()
	}
	if t, ok := x.(*time.Ticker); ok {
		t.Stop()
		return true
	}
	// some other type with a Stop method
	m := reflect.ValueOf(x).MethodByName("Stop")
	if m.IsValid() {
		r := m.Call(nil)
		if len(r) == 1 && r[0].Kind() == reflect.Bool {
			return r[0].Bool()
		}
	}
	return false
}

// ---- harness thread API

func runHarness(fn func(), r *Replay, out *Outcome) {
	var s *sched
	raceMode = os.Getenv("VERIF_RACE") == "1"
	if r.Sched && !raceMode {
		s = startSched(r.Schedule, r.Params["preempt"])
	}
	defer func() {
		p := recover()
		if s != nil {
			out.Deadlock = s.deadlock
			out.SchedUsed = s.pos
			if s.panicMsg != "" && out.Panic == "" {
				out.Panic, out.PanicStack = s.panicMsg, s.panicStack
			}
			s.killed = true
			S = nil
		}
		if p != nil {
			switch p.(type) {
			case assumeFailed, schedAbort:
				return
			}
			out.Panic = fmt.Sprint(p)
			out.PanicStack = string(debug.Stack())
		}
	}()
	if s != nil {
		fn()
		return
	}
	// no scheduler installed: real mutexes. A harness that does not return (a lock taken twice by the
	// same goroutine, a lock leaked on an early return) is reported as a deadlock by a watchdog.
	type fin struct {
		p     interface{}
		stack string
	}
	done := make(chan fin, 1)
	go func() {
		defer func() {
			if p := recover(); p != nil {
				done <- fin{p, string(debug.Stack())}
				return
			}
			done <- fin{}
		}()
		fn()
	}()
	select {
	case f := <-done:
		switch f.p.(type) {
		case nil, assumeFailed, schedAbort:
		default:
			out.Panic, out.PanicStack = fmt.Sprint(f.p), f.stack
		}
	case <-time.After(watchdog()):
		out.Deadlock = true
	}
}

func watchdog() time.Duration {
	if v, err := strconv.Atoi(os.Getenv("VERIF_REPLAY_WATCHDOG_S")); err == nil && v > 0 {
		return time.Duration(v) * time.Second
	}
	return 20 * time.Second
}

// Baton hand-over between the twin scheduler's goroutines. Under the Go race detector the hand-over must
// not count as synchronisation (it would order every access of one thread before every later access of the
// next and hide all races): the detector's handling of synchronisation events is switched off around it.
// Real lock operations of the code under test, go statements and timers keep their happens-before edges.
func wakeSend(c chan struct{}) {
	raceDisable()
	c <- struct{}{}
	raceEnable()
}

func wakeRecv(c chan struct{}) {
	raceDisable()
	<-c
	raceEnable()
}

var wg sync.WaitGroup

// race confirmation mode: real goroutines, no twin scheduler (its hand-over would order everything); the
// harness threads start staggered by a sleep - which orders nothing in the memory model - in the order
// given by VERIF_RACE_ORDER (0: together, 1: first thread first, 2: second thread first)
var raceMode bool
var raceStarted int32

// Go starts a harness thread.
func Go(fn func()) {
	if s := S; s != nil {
		s.spawn(fn, stReady).harness = true
		return
	}
	wg.Add(1)
	delay := time.Duration(0)
	if raceMode {
		k := int(atomic.AddInt32(&raceStarted, 1)) - 1
		switch os.Getenv("VERIF_RACE_ORDER") {
		case "1":
			delay = time.Duration(k) * 150 * time.Millisecond
		case "2":
			delay = time.Duration(1-k%2) * 150 * time.Millisecond
		}
	}
	go func() {
		defer wg.Done()
		if delay > 0 {
			time.Sleep(delay)
		}
		fn()
	}()
}

func Yield() {
	if s := S; s != nil {
		s.yield()
	}
}

func (s *sched) waitIdle(timers bool) {
	old := s.idleTimers
	s.idleTimers = timers
	defer func() { s.idleTimers = old }()
	for {
		en := s.enabled(timers)
		if len(en) == 0 {
			return
		}
		cur := s.cur
		cur.state = stWaitIdle
		next := s.pickNext()
		s.switchTo(next)
		cur.state = stReady
	}
}

// WaitIdle runs the other threads until none is ready (armed timers do not fire).
func WaitIdle() {
	if s := S; s != nil {
		s.waitIdle(false)
		return
	}
	wg.Wait()
	bg.Wait()
	time.Sleep(20 * time.Millisecond) // goroutines started by uninstrumented code
}

// RunReadyFIFO runs the ready threads to completion in spawn order (no scheduling decision).
func RunReadyFIFO() {
	s := S
	if s == nil {
		WaitIdle()
		return
	}
	for {
		en := s.enabled(false)
		if len(en) == 0 {
			return
		}
		cur := s.cur
		cur.state = stWaitIdle
		s.switchTo(en[0])
		cur.state = stReady
	}
}

// FireTimers is WaitIdle with armed timers firing as well, in every order.
func FireTimers() {
	if s := S; s != nil {
		s.waitIdle(true)
		return
	}
	WaitIdle()
}

func PreemptOn() {
	if s := S; s != nil {
		s.preemptOn = true
	}
}

func PreemptOff() {
	if s := S; s != nil {
		s.preemptOn = false
	}
}

// SpawnedFIFO: when the running thread ends or blocks, harness threads are chosen first (in every order);
// goroutines started by the code under test run afterwards in spawn order.
func SpawnedFIFO(on bool) {
	if s := S; s != nil {
		s.spawnedFIFO = on
	}
}

// PreemptOnlyHolding restricts pre-emption at lock operations to threads that hold at least one lock.
func PreemptOnlyHolding(on bool) {
	if s := S; s != nil {
		s.onlyHolding = on
	}
}

// PreemptAtUnlock makes mutex releases pre-emption points as well (default: acquisitions only).
func PreemptAtUnlock(on bool) {
	if s := S; s != nil {
		s.unlockYield = on
	}
}

func PendingTimers() int {
	n := 0
	if s := S; s != nil {
		for _, t := range s.thr {
			if t.state == stTimer {
				n++
			}
		}
	}
	return n
}

func BlockedThreads() int {
	n := 0
	if s := S; s != nil {
		for _, t := range s.thr {
			if t.state == stBlocked {
				n++
			}
		}
	}
	return n
}

func Tick()                    {}
func TickerCount() int         { return 0 }
func TickerPeriod(i int) int64 { return 0 }

// RaceDetect switches the engine's happens-before race detection on or off (natively: nothing; a race
// counterexample is confirmed by running the harness with real goroutines under the Go race detector).
func RaceDetect(on bool) {}

// TickerResetCount / TickerResetPeriod: calls of (*time.Ticker).Reset recorded by the engine (0 natively).
func TickerResetCount() int         { return 0 }
func TickerResetPeriod(i int) int64 { return 0 }
