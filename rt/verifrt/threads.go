package verifrt

import (
	"fmt"
	"runtime/debug"
	"sync"
)

// Sequential native fall-back for the thread API (no scheduler installed):
// Go starts a goroutine, WaitIdle waits for all of them. The deterministic
// twin of the engine's scheduler lives in sched_native.go and takes over
// when a replay carries a schedule.

var wg sync.WaitGroup

func runHarness(fn func(), r *Replay, out *Outcome) {
	defer func() {
		if p := recover(); p != nil {
			if _, ok := p.(assumeFailed); ok {
				return
			}
			out.Panic = fmt.Sprint(p)
			out.PanicStack = string(debug.Stack())
		}
	}()
	fn()
}

func Go(fn func()) {
	wg.Add(1)
	go func() {
		defer wg.Done()
		fn()
	}()
}

func Yield()              {}
func WaitIdle()           { wg.Wait() }
func FireTimers()         { wg.Wait() }
func PreemptOn()          {}
func PreemptOff()         {}
func PendingTimers() int  { return 0 }
func BlockedThreads() int { return 0 }
func Tick()               {}
func TickerCount() int    { return 0 }
func TickerPeriod(i int) int64 { return 0 }
