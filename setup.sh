#!/bin/sh
# Builds the engine offline from files on disk.
set -e
cd "$(dirname "$0")/engine"
export GOFLAGS=-mod=mod GOPROXY=off GOSUMDB=off GOTOOLCHAIN=local
mkdir -p ../bin
go build -o ../bin/symgo ./cmd/symgo
