#!/bin/bash
# tools/alltiers.sh <quick|thorough> [ids...]: runs every claimed check of MANIFEST.json in the given tier, one after the
# other, and prints one line per check (exit code, wall time, SUMMARY). Logs: .work/tiers/<tier>/<ID>.log
cd "$(dirname "$0")/.."
TIER=${1:-quick}; shift
IDS="$@"
[ -z "$IDS" ] && IDS=$(jq -r '.checks[].property_id' MANIFEST.json | tr '\n' ' ')
mkdir -p .work/tiers/$TIER
for id in $IDS; do
  t0=$(date +%s)
  ./check $id --tier $TIER ${EXTRA:-} > .work/tiers/$TIER/$id.log 2>&1; rc=$?
  t1=$(date +%s)
  echo "$id exit=$rc wall=$((t1-t0))s $(grep '^SUMMARY' .work/tiers/$TIER/$id.log | tail -1 | cut -c1-220)"
  grep '^VIOLATION\|^INCONCLUSIVE\|^WORKER' .work/tiers/$TIER/$id.log | head -5
done
