#!/usr/bin/env python3
"""Acceptance run over the round-0 mutation corpus: every mutant that survives the pinned suite is applied through
an overlay (tools/mutant.py) and its property's quick check is run.  Results: seeded/corpus_results.json.
usage: tools/corpus.py [ids...]"""
import json, subprocess, sys, time, re, os
corpus = json.load(open('/verif/design_probes/mutation_corpus.json'))
muts = corpus if isinstance(corpus, list) else corpus.get('mutations', corpus)
want = sys.argv[1:]
out_path = '/verif/seeded/corpus_results.json'
res = json.load(open(out_path)) if os.path.exists(out_path) else {}
for m in muts:
    if m.get('baseline_suite') != 'survives':
        continue
    if want and m['id'] not in want:
        continue
    t0 = time.time()
    p = subprocess.run(['/verif/tools/mutant.py', m['id']], capture_output=True, text=True)
    lines = p.stdout.splitlines()
    viol = [l.strip() for l in lines if l.startswith('  harness=')]
    labels = sorted(set(re.sub(r'scenario=.*? kind=', 'kind=', v) for v in viol))
    summ = [l for l in lines if l.startswith('SUMMARY')]
    inc = [l for l in lines if l.startswith('INCONCLUSIVE') or l.startswith('WORKER ERROR')]
    res[m['id']] = {'property': m.get('property'), 'file': m['file'], 'description': m.get('description'),
                    'check_exit': p.returncode, 'detected': p.returncode == 1, 'violations': len(viol),
                    'labels': labels[:6], 'inconclusive': inc[:3], 'summary': summ[-1] if summ else '', 'wall_s': round(time.time() - t0, 1)}
    print(m['id'], 'exit', p.returncode, 'violations', len(viol), 'wall', round(time.time() - t0), flush=True)
    json.dump(res, open(out_path, 'w'), indent=1)
