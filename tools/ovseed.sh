#!/bin/bash
# tools/ovseed.sh <ID> <PROP> [check args]: run a check of the development copy against a seeded change injected by
# overlay (the changed files of worktree /tmp/wt/<ID>), without touching /repo.
ID=$1; PROP=$2; shift 2
V=$(cd "$(dirname "$0")/.." && pwd)
OV=""
for f in $(git -C /tmp/wt/$ID diff --name-only); do OV="$OV,/repo/$f=/tmp/wt/$ID/$f"; done
OV=${OV#,}
export GOFLAGS=-mod=mod GOPROXY=off GOSUMDB=off GOTOOLCHAIN=local
$V/bin/symgo check $PROP --verif $V --no-evidence --overlay "$OV" "$@"
