#!/bin/sh
# runs the pinned suite of /repo; exit 1 if anything fails
cd /repo && GOFLAGS=-mod=mod GOPROXY=off GOSUMDB=off go test -vet=off -count=1 ./... > /tmp/repotest.log 2>&1
if grep -q "FAIL\|panic:" /tmp/repotest.log; then grep -E "FAIL|---|panic:" /tmp/repotest.log | head -20; exit 1; fi
grep -E "^ok" /tmp/repotest.log; exit 0
