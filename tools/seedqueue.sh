#!/bin/bash
# tools/seedqueue.sh: processes lines "<ID> <PROPERTY> [check args]" appended to /tmp/wt/queue one after the other
# (tools/seed.sh applies a patch to /repo, so only one may run at a time). Results: /tmp/wt/queue.log
Q=/tmp/wt/queue; touch $Q; n=0
while true; do
  total=$(wc -l < $Q)
  if [ -e /tmp/wt/pause ]; then echo idle > /tmp/wt/state; sleep 3; continue; fi
  if [ $n -lt $total ]; then
    echo busy > /tmp/wt/state
    n=$((n+1)); line=$(sed -n "${n}p" $Q)
    [ "$line" = "STOP" ] && exit 0
    echo "=== $line $(date +%T)" >> /tmp/wt/queue.log
    /verif/tools/seed.sh $line >> /tmp/wt/queue.log 2>&1
    echo "=== done $line $(date +%T)" >> /tmp/wt/queue.log
  else echo idle > /tmp/wt/state; sleep 5; fi
done
