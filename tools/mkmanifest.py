#!/usr/bin/env python3
"""Regenerates MANIFEST.json from harness/registry.json (claimed properties = those with harnesses) and tools/manifest_meta.json."""
import json
reg = json.load(open('/verif/harness/registry.json'))
meta = json.load(open('/verif/tools/manifest_meta.json'))
props = sorted({h['property'] for h in reg['harnesses']})
checks = []
for p in props:
    m = meta['properties'].get(p, {})
    hs = [h for h in reg['harnesses'] if h['property'] == p]
    note = m.get('note', '') + ' Harnesses: ' + '; '.join('%s (%s; outside: %s)' % (h['name'], h['bounds'], h.get('outside') or '-') for h in hs)
    checks.append({
        "property_id": p, "quick_cmd": "./check %s --tier quick" % p, "thorough_cmd": "./check %s --tier thorough" % p,
        "evidence_file": "evidence/%s.json" % p, "replay_cmd_template": "./check replay {path}", "engine": "symgo",
        "level_claimed": {"category": "model_checking",
            "text": m.get('text', "bounded symbolic execution of the real Go code: every branch and assertion on every explored path is decided by an SMT solver over all values of the symbolic inputs within the stated bounds; counterexamples and path witnesses are replayed natively"),
            "design_ref": "DESIGN.md section 7 " + p},
        "level_note": note[:3000],
        "technique": m.get('technique', "solver-based bounded symbolic execution of Go SSA (z3/cvc5), native replay of counterexamples")})
na = [{"property_id": p, "reason": r} for p, r in sorted(meta['not_applicable'].items()) if p not in props]
man = {"version": 1, "setup_cmd": "./setup.sh",
 "hooks": {"guard": "verif", "enable": "none needed: harnesses, the verifrt runtime and (for schedule replay) an instrumented copy of spine/model are injected by overlay (go/packages Overlay for the engine, go test -overlay for native replay); the build tag verif is passed but no file in /repo uses it",
   "baseline_off_cmd": "cd /repo && GOFLAGS=-mod=mod GOPROXY=off go test -vet=off -count=1 -timeout 25m ./...", "source_commits": [], "add_only": True},
 "engines": [{"name": "symgo", "path": "engine", "serves_properties": props, "kind_free_text": "bounded symbolic executor for Go SSA (vendored x/tools go/ssa/interp extended with symbolic ints/bools/floats/strings, maybe-nil pointers, reflect model, baton scheduler) with z3/cvc5 as decision procedure; native replay through go test -overlay, schedules through a go/ast instrumenter and a twin scheduler"}],
 "checks": checks, "not_applicable": na, "notes": meta.get('notes', '')}
json.dump(man, open('/verif/MANIFEST.json', 'w'), indent=1)
print('claimed', props, 'not applicable', [x['property_id'] for x in na])
