#!/bin/bash
# tools/seed.sh <ID> <PROPERTY> [check args]: verify a sub-agent's seeded change in its scratch worktree /tmp/wt/<ID>,
# archive it under /verif/seeded/<ID>, then run the property's check against /repo with the patch applied (and undo it).
set -u
ID=$1; PROP=$2; shift 2
WT=/tmp/wt/$ID; OUT=/verif/seeded/$ID
export GOFLAGS=-mod=mod GOPROXY=off GOSUMDB=off GOTOOLCHAIN=local
mkdir -p $OUT
cd $WT || exit 2
DEMO=$(git status --porcelain | grep '^??' | awk '{print $2}' | grep '_test.go$' | head -1)
PKG=./$(dirname $DEMO)
TEST=$(grep -o 'func Test[A-Za-z0-9_]*' $DEMO | head -1 | sed 's/func //')
echo "demo=$DEMO pkg=$PKG test=$TEST"
cp patch.diff $OUT/patch.diff; cp $DEMO $OUT/$(basename $DEMO).txt; [ -f NOTES.md ] && cp NOTES.md $OUT/NOTES.md
# (1) suite with the change, demo excluded
mv $DEMO /tmp/wt/$ID.demo.keep
go build ./... && go test -vet=off -count=1 ./... > /tmp/wt/$ID.suite.log 2>&1; SUITE=$?
mv /tmp/wt/$ID.demo.keep $DEMO
# (2) demo with the change
go test -vet=off -count=1 -run "^$TEST\$" $PKG > /tmp/wt/$ID.demo_with.log 2>&1; WITH=$?
# (3) demo without the change
git apply -R patch.diff ; go test -vet=off -count=1 -run "^$TEST\$" $PKG > /tmp/wt/$ID.demo_without.log 2>&1; WITHOUT=$?; git apply patch.diff
echo "suite_with_change_exit=$SUITE demo_with_change_exit=$WITH demo_without_change_exit=$WITHOUT"
# (4) our check against /repo with the patch applied
cd /verif
git -C /repo apply $OUT/patch.diff || { echo "patch does not apply to /repo"; exit 2; }
./check $PROP --no-evidence "$@" > /tmp/wt/$ID.check.log 2>&1; CHECK=$?
git -C /repo checkout -- .
grep -c "^VIOLATION" /tmp/wt/$ID.check.log | sed 's/^/violations=/'
grep "^VIOLATION\|^  harness" /tmp/wt/$ID.check.log | head -6
grep "^SUMMARY\|^INCONCLUSIVE" /tmp/wt/$ID.check.log | tail -3
python3 - "$ID" "$PROP" "$SUITE" "$WITH" "$WITHOUT" "$CHECK" "$DEMO" "$TEST" <<'PY'
import json,sys,subprocess
ID,PROP,SUITE,WITH,WITHOUT,CHECK,DEMO,TEST=sys.argv[1:]
log=open('/tmp/wt/%s.check.log'%ID).read()
viol=[l for l in log.splitlines() if l.startswith('  harness=')]
meta={"id":ID,"property":PROP,"source":"written by an independent sub-agent that saw only the property text and a scratch worktree",
 "needs_to_manifest":"see NOTES.md",
 "confirmed":{"suite_with_change_passes":SUITE=="0","demo_with_change_fails":WITH!="0","demo_without_change_passes":WITHOUT=="0"},
 "demo":{"file":DEMO,"test":TEST,"archived_as":DEMO.split('/')[-1]+".txt"},
 "commands":["cd /tmp/wt/%s && go test -vet=off -count=1 ./...  (demo file moved aside)"%ID,"go test -vet=off -count=1 -run ^%s$ ./%s (with and, after git stash, without the change)"%(TEST,'/'.join(DEMO.split('/')[:-1])),
   "git -C /repo apply seeded/%s/patch.diff && ./check %s --no-evidence ; git -C /repo checkout -- ."%(ID,PROP)],
 "check_exit":int(CHECK),"detected":CHECK=="1","detected_by":sorted(set(viol))[:8]}
json.dump(meta,open('/verif/seeded/%s/meta.json'%ID,'w'),indent=1)
print("meta written; detected =",meta["detected"])
PY
