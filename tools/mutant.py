#!/usr/bin/env python3
"""Apply one mutation of design_probes/mutation_corpus.json through an overlay (no copy of /repo)
and run the named property's check against it.  usage: tools/mutant.py M02e [--tier quick] [--prop C02]"""
import json, os, subprocess, sys, tempfile
corpus = json.load(open('/verif/design_probes/mutation_corpus.json'))
muts = corpus if isinstance(corpus, list) else corpus.get('mutations', corpus)
mid = sys.argv[1]
m = next(x for x in muts if x['id'] == mid)
prop = m.get('property') or m.get('prop')
args = sys.argv[2:]
if '--prop' in args:
    i = args.index('--prop'); prop = args[i+1]; del args[i:i+2]
src = open('/repo/' + m['file']).read()
assert src.count(m['old']) >= 1, 'old string not found'
d = tempfile.mkdtemp(prefix='mut-', dir='/verif/.work') if os.path.isdir('/verif/.work') else tempfile.mkdtemp(prefix='mut-')
out = os.path.join(d, os.path.basename(m['file']))
open(out, 'w').write(src.replace(m['old'], m['new'], 1))
print('mutant', mid, prop, m['file'], '-', m.get('description', m.get('desc', '')))
r = subprocess.run(['/verif/check', prop, '--overlay', '/repo/%s=%s' % (m['file'], out), '--no-evidence'] + args)
subprocess.run(['rm', '-rf', d])
sys.exit(r.returncode)
